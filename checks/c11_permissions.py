"""
C11 - GATT attribute permissions gate every read and write path.

Victim: a full Bumble Device (vlib.world.Node) whose GATT database is generated (filler
services of mixed shapes around one target service and one target group).  Two peers:

  * a RawPeer acting as ATT client on the fixed channel (CID 4) with hand-made ATT PDUs;
  * a second Bumble Device that opens one enhanced ATT bearer (EATT, L2CAP enhanced
    credit based channel on PSM 0x27) the way tests/gatt_test.py::test_eatt_* do; the
    harness writes raw ATT PDUs on that channel and records the SDUs coming back.

A *cell* is (target kind, permission mask, link security, access path, bearer).  For each
cell the harness installs the mask and a recognisable secret on the target attribute,
sets the link security state on the victim's Connection objects, sends one request and
judges the answer and the server-side value against the reference rule taken from the
property text.  The core matrix is enumerated with plain loops (exhaustive in the thorough
tier); Hypothesis generates the surrounding database shape, MTUs, value kinds and
secrets, and additional random programs of cells (including two requests in flight on the
two bearers at the same time).

Further families (see RULE): 'states' - nine more link-security states (authenticated flag without encryption,
encryption mode 2, the two links of the victim in different states, also with the same read in flight on both) -
and 'forms' - more parameter forms of the listed operations plus Prepare/Execute Write and Signed Write Command.

Failure signatures: <clause>/<refusal class>/<ATT operation>, clauses disclosed / changed /
unanswered / bad_answer / over_blocked.  The triggers of known finding F11a (a value with no read
permission bit at all is returned to the peer; a pinned test depends on that) are excluded by
construction and counted, see KNOWN_TRIGGERS.
"""

from __future__ import annotations

import asyncio
import struct

from hypothesis import strategies as st

from vlib import vloop, world
from vlib.runner import HarnessError

PROPERTY = 'C11'
LEVEL = 'exploration'
RULE = (
    'matrix (plain loops; exhaustive in thorough, where it is run three times in different worlds and orders; '
    'a stratified third [one of the three security states per (kind, mask, path, bearer), rotated by the '
    'seed] in quick): target kind {characteristic '
    'value, descriptor, group (service-typed attribute carrying a mask)} x all 256 permission masks x '
    'security {plain, encrypted, encrypted+authenticated} x access path {read, read blob at offset 0 '
    'and 7 on a value longer than MTU-1, read by type with the target first / second after a readable '
    'attribute of the same type, read by group type first / second (group kind), read multiple and read '
    'multiple variable with the target alone / after an unprotected attribute, find by type value with '
    'the guess equal / not equal to the secret, write request, write command} x bearer {ATT fixed '
    'channel from a raw peer, EATT channel from a second Bumble device}; plus the fixed declarations '
    '(service, characteristic, include) with their built-in permissions on every path that reaches them. '
    'The matrix is cut into chunks; each chunk runs in a Hypothesis-generated world (0..3 filler services '
    'before and 0..2 after the target service with 16/128-bit UUIDs, 0..3 characteristics, descriptors, '
    'CCCDs; target value static / AttributeValue / async AttributeValue / AttributeValueV2; fixed-channel '
    'ATT_MTU 23..247 by a real Exchange MTU, EATT MTU 64..256; secret length 8..40). programs: Hypothesis '
    'draws a world and 4..30 cells from the same domain, a quarter of them as pairs in flight on both '
    'bearers at once. non-trivial = the rule refuses the access, or grants it while a requirement bit of '
    'that direction is set; distinct by (kind, mask, security, path, bearer). downgrade histories (plain loops): for '
    'characteristic values and descriptors x 3 requirement masks per direction x bearer x every ordered pair of paths '
    'of one direction: the first access on an encrypted+authenticated link (granted), the second on the same '
    'attribute and bearer after the link security went down (refused). '
    'states (plain loops, like the matrix: everything in thorough, one mask in 36 per (kind, path, bearer, state) in '
    'quick): masked kinds x all 256 masks x every path x bearer x nine further link-security states: the '
    'authenticated flag on a link whose encryption is off; Connection.encryption == 2 without / with the '
    'authenticated flag; and the six ordered pairs of different base states for (link of the request, the '
    "victim's other link). Plus directed pairs in flight: the same read on both bearers at once while exactly one "
    'of the two links meets the requirement (3 requirement masks x value/descriptor x bearer x read path x 4 states). '
    'forms (plain loops; everything in thorough, one mask in 18 in quick): masked kinds x all 256 masks x bearer x '
    'base state x {Read By Type / Read By Group Type with the 16-bit type written as 128-bit UUID, with a range of '
    'exactly the target handle; Read Multiple (Variable) with the target first before an open attribute / in the '
    'middle of three handles; Read Blob at the last byte, at offset == length, and on a value that is not long; Write '
    'Request / Command with a zero-length value; Prepare Write + Execute Write; Signed Write Command}. Programs draw '
    'a quarter of their states and paths from these. In a third of the worlds the mask is put on the target through '
    'Attribute.Permissions.from_string() of the flag names (comma or | separated) instead of Permissions(mask). '
    'paired (Hypothesis): two Bumble devices; the security state is REACHED, not installed: Just Works / passkey / '
    'numeric-comparison pairing (legacy or SC, GATT server on either end, HCI delays), reads and writes of '
    'authentication- and encryption-protected characteristics before the pairing, at generated moments during it, '
    'after it, on the next connection before and after encrypting with the stored key, and after pairing again with '
    'the same or a weaker method.'
)
ASSUMPTIONS = [
    'family paired: "the link meets an authentication requirement" is read as in Core Vol 3 Part C 10.3: the link '
    'is encrypted with a key from a MITM-protected pairing (passkey entry, numeric comparison, OOB); a link '
    'encrypted by Just Works pairing, or later with the stored key of a Just Works bond, meets encryption '
    'requirements only. Only disclosure/change is judged (the statement says "only if"); grants are counted',
    'link security is set on the documented attributes Connection.encryption / Connection.authenticated '
    'of the victim (what Device.on_connection_encryption_change / on_pairing assign); how a pairing '
    'arrives at them is property C13',
    'Bumble has no authorisation mechanism: an attribute that requires authorisation is always refused '
    '(by the rule and by the code)',
    'accepted error codes for a refusal: Read/Write Not Permitted for a missing READABLE/WRITEABLE bit, '
    'Insufficient Encryption or Insufficient Authentication for an unmet encryption requirement (the '
    'Core spec uses either depending on whether a key exists), Insufficient Authentication (also '
    'Insufficient Encryption while the link is unencrypted) for an unmet authentication requirement, '
    'Insufficient Authorization; any applicable one when several apply',
    'Find By Type Value is a search: Attribute Not Found (or a response that does not list the target) '
    'is an accepted answer when the target is refused; for ranged reads whose refused target is not '
    'the first hit a response with only the preceding attributes is accepted',
    'granted ranged reads may deliver the target in a follow-up request that starts after the last '
    'returned handle (a server is not obliged to pack two entries into one response)',
    'value lengths are chosen so that a granted multi-attribute response fits ATT_MTU without '
    'truncation (truncation format is property C10)',
    'a response PDU to a Write Command is not judged here (C10); only the value and disclosure are',
    'what "readable"/"writable" means when a requirement bit is set without the plain bit is not settled by the '
    'property text: six profiles shipped in bumble/profiles declare e.g. permissions=READ_REQUIRES_ENCRYPTION alone '
    'for values that are meant to be read over an encrypted link. Cells whose only reason for refusal is the '
    'missing READABLE (WRITEABLE) bit while a read (write) requirement bit is set and met are therefore judged under '
    'both readings and pass if either holds (grant with the value delivered / the write taking effect, or refusal '
    'with Read/Write Not Permitted); they still have to be answered',
    'known finding F11a: a value with no read permission bit at all (e.g. WRITEABLE only, or Permissions(0)) is '
    'returned on every read path; tests/heart_rate_service_test.py::test_read_measurement pins it. Those cells are '
    'not run; they are counted under excluded_by_known_finding (a few are run when known_findings.json lists the '
    'signature, to print the KNOWN-FINDING line). Writes to attributes with no write permission bit at all '
    '(declarations, read-only values) are judged',
    'the two facts the code consults are independent: "encrypted" = Connection.encryption != 0 (1 and 2 are both '
    'encrypted), "authenticated" = Connection.authenticated. A link with the authenticated flag but no encryption '
    '(the flag is not cleared by an Encryption Change to off) never meets an encryption requirement; whether it '
    'meets an authentication requirement the statement leaves open: such cells pass under either reading',
    "only the security of the link that carries the request counts; the state of the victim's other links is "
    'irrelevant to the rule (EATT bearer: the link under the channel)',
    'Prepare Write / Execute Write and Signed Write Command are not among the operations the statement lists (this '
    'server answers Request Not Supported / ignores them): for them only "can change it only if it is writable and '
    'the link meets the write requirement" and non-disclosure are judged, not the answer and not that a permitted '
    'write takes effect',
    'Read Blob on a value that is not long: Attribute Not Long is an applicable error besides the permission '
    'error (refused), and an acceptable answer when reading is granted; at offset == length a granted Read Blob '
    'only has to be answered; a repeated handle in Read Multiple is not judged beyond the target value',
    'a permission string that from_string() rejects is not a property violation (nothing can be accessed); the '
    'floors on pform:* make a generator that never gets a string accepted a harness error',
]
SHRINK_KEYS = ('cells',)

# Attribute.Permissions bits (harness copy, from the property's anchor)
READABLE, WRITEABLE = 0x01, 0x02
R_ENC, W_ENC, R_AUTHN, W_AUTHN, R_AUTHZ, W_AUTHZ = 0x04, 0x08, 0x10, 0x20, 0x40, 0x80

# ATT error codes (Core Vol 3 Part F 3.4.1.1)
E_READ_NOT_PERMITTED, E_WRITE_NOT_PERMITTED = 0x02, 0x03
E_AUTHN, E_AUTHZ, E_ENC, E_NOT_FOUND = 0x05, 0x08, 0x0F, 0x0A

# Link security states: (name, (Connection.encryption, Connection.authenticated) of the link that carries the
# request, the same for the victim's other link). 0..2 are the three states of the quantifier with all links alike.
# 3: the 'authenticated' flag on a link whose encryption is off (what an Encryption Change event with encryption
# off leaves behind: Device.on_connection_encryption_change only assigns .encryption; also BR/EDR authentication
# without encryption). 4, 5: Connection.encryption == 2 (AES-CCM value of the HCI Encryption Change event) instead
# of 1. 6..11: the link of the request and the victim's other link are in different base states.
_P, _E, _A = (0, False), (1, False), (1, True)
SEC_STATES = (
    ('plain', _P, _P), ('encrypted', _E, _E), ('authenticated', _A, _A),
    ('authn_flag_unencrypted', (0, True), (0, True)),
    ('encrypted_mode2', (2, False), (2, False)), ('authenticated_mode2', (2, True), (2, True)),
    ('plain_beside_encrypted', _P, _E), ('plain_beside_authenticated', _P, _A),
    ('encrypted_beside_plain', _E, _P), ('encrypted_beside_authenticated', _E, _A),
    ('authenticated_beside_plain', _A, _P), ('authenticated_beside_encrypted', _A, _E),
)
SEC = tuple(s[0] for s in SEC_STATES)
BASE_SEC = (0, 1, 2)
EXTRA_SEC = tuple(range(3, len(SEC_STATES)))
SEC_OPEN_AUTHN = 3
# the same pair of links seen from the other link (requests in flight on both bearers at once)
MIRROR = {6: 8, 8: 6, 7: 10, 10: 7, 9: 11, 11: 9}
_BASE_OF = {_P: 0, _E: 1, _A: 2}
BEARERS = ('fixed', 'eatt')

T16, D16 = 0xA0C1, 0xA0D1  # types of the open/target characteristic values and descriptors
UUID_PRIMARY, UUID_SECONDARY, UUID_INCLUDE, UUID_CHARACTERISTIC = 0x2800, 0x2801, 0x2802, 0x2803

VALUE_PATHS = ('read', 'blob0', 'blobk', 'rbt_first', 'rbt_second', 'rm_alone', 'rm_with', 'rmv_alone',
               'rmv_with', 'fbtv_eq', 'fbtv_ne', 'write_req', 'write_cmd')
PATHS = {
    'char': VALUE_PATHS,
    'desc': VALUE_PATHS,
    'group': ('read', 'rbt_first', 'rbgt_first', 'rbgt_second', 'rm_alone', 'rm_with', 'rmv_with',
              'fbtv_eq', 'fbtv_ne', 'write_req', 'write_cmd'),
    'decl_service': ('read', 'rbt_first', 'rbgt_first', 'rm_with', 'rmv_alone', 'fbtv_eq', 'write_req', 'write_cmd'),
    'decl_char': ('read', 'rbt_first', 'rm_with', 'rmv_with', 'fbtv_eq', 'write_req', 'write_cmd'),
    'decl_include': ('read', 'rbt_first', 'rm_alone', 'rmv_with', 'fbtv_eq', 'write_req', 'write_cmd'),
}
MASKED_KINDS = ('char', 'desc', 'group')
DECL_KINDS = ('decl_service', 'decl_char', 'decl_include')
ALL_PATHS = sorted({p for ps in PATHS.values() for p in ps})

# Further parameter forms of the same operations, and the writing operations the statement does not list
# (family 'forms'): the attribute type written as a 128-bit UUID, a range of exactly the target handle, handle
# lists with the target first / in the middle of three, Read Blob at the last byte / at the end of a long value / on
# a value that is not long, writes of a zero-length value, Prepare Write + Execute Write, Signed Write Command.
VALUE_FORM_PATHS = ('rbt_128', 'rbt_exact', 'rm_first', 'rm_mid', 'rmv_first', 'rmv_mid', 'blob_last', 'blob_end',
                    'blob_short', 'write_req_empty', 'write_cmd_empty', 'prep_exec', 'signed_cmd')
FORM_PATHS = {
    'char': VALUE_FORM_PATHS,
    'desc': VALUE_FORM_PATHS,
    'group': ('rbt_128', 'rbgt_128', 'rbgt_exact', 'rm_first', 'rm_mid', 'rmv_first', 'write_req_empty',
              'write_cmd_empty', 'prep_exec', 'signed_cmd'),
}
ALL_FORM_PATHS = sorted({p for ps in FORM_PATHS.values() for p in ps})

OP_OF = {
    'read': ('read', 0x0A), 'blob0': ('read_blob', 0x0C), 'blobk': ('read_blob', 0x0C),
    'rbt_first': ('read_by_type', 0x08), 'rbt_second': ('read_by_type', 0x08),
    'rbgt_first': ('read_by_group_type', 0x10), 'rbgt_second': ('read_by_group_type', 0x10),
    'rm_alone': ('read_multiple', 0x0E), 'rm_with': ('read_multiple', 0x0E),
    'rmv_alone': ('read_multiple_variable', 0x20), 'rmv_with': ('read_multiple_variable', 0x20),
    'fbtv_eq': ('find_by_type_value', 0x06), 'fbtv_ne': ('find_by_type_value', 0x06),
    'write_req': ('write_request', 0x12), 'write_cmd': ('write_command', 0x52),
    'rbt_128': ('read_by_type', 0x08), 'rbt_exact': ('read_by_type', 0x08),
    'rbgt_128': ('read_by_group_type', 0x10), 'rbgt_exact': ('read_by_group_type', 0x10),
    'rm_first': ('read_multiple', 0x0E), 'rm_mid': ('read_multiple', 0x0E),
    'rmv_first': ('read_multiple_variable', 0x20), 'rmv_mid': ('read_multiple_variable', 0x20),
    'blob_last': ('read_blob', 0x0C), 'blob_end': ('read_blob', 0x0C), 'blob_short': ('read_blob', 0x0C),
    'write_req_empty': ('write_request', 0x12), 'write_cmd_empty': ('write_command', 0x52),
    'prep_exec': ('prepare_execute_write', 0x16), 'signed_cmd': ('signed_write_command', 0xD2),
}
BASE_WRITE_PATHS = ('write_req', 'write_cmd')
WRITE_PATHS = BASE_WRITE_PATHS + ('write_req_empty', 'write_cmd_empty', 'prep_exec', 'signed_cmd')
WRITE_REQUEST_PATHS = ('write_req', 'write_req_empty')
# operations outside the statement's list: only "a peer can change the value only if ..." is judged for them
UNLISTED_WRITE_PATHS = ('prep_exec', 'signed_cmd')
BLOB_PATHS = ('blob0', 'blobk', 'blob_last', 'blob_end', 'blob_short')
BLOB_OFFSET = 7
E_INVALID_OFFSET, E_NOT_LONG = 0x07, 0x0B
UUID128_BASE = bytes.fromhex('fb349b5f8000008000100000')  # Bluetooth base UUID, little endian, without the 32 type bits
PERM_NAMES = (
    (0x01, 'READABLE'), (0x02, 'WRITEABLE'), (0x04, 'READ_REQUIRES_ENCRYPTION'), (0x08, 'WRITE_REQUIRES_ENCRYPTION'),
    (0x10, 'READ_REQUIRES_AUTHENTICATION'), (0x20, 'WRITE_REQUIRES_AUTHENTICATION'),
    (0x40, 'READ_REQUIRES_AUTHORIZATION'), (0x80, 'WRITE_REQUIRES_AUTHORIZATION'),
)
WAIT = 0.25  # virtual seconds given to the server after each request (longer than the async value delay)

DEFAULT_WORLD = {
    'secret': bytes(range(0x80, 0x80 + 40)), 'open': bytes(range(0x30, 0x30 + 40)), 'slen': 12,
    'pre': [], 'post': [], 'tprops': 0x0A, 'vkind': 'static', 'mtu': 23, 'eatt_mtu': 64, 'gprimary': True,
    'tsvc128': False, 'pform': 'flags',
}


# ---------------------------------------------------------------------------
# reference rule (straight from the property text)
# ---------------------------------------------------------------------------
# Convention of the code base (see ASSUMPTIONS): a requirement bit of a direction designates the attribute as
# accessible in that direction once the requirement is met, with or without the plain READABLE/WRITEABLE bit.
_convention = [False]
# State SEC_OPEN_AUTHN (authenticated flag on an unencrypted link): the statement does not say whether such a link
# "meets an authentication requirement"; judged under both readings (the flag counts / an unencrypted link is never
# authenticated). An encryption requirement is unmet under both.
_authn_needs_encryption = [False]


def link_state(sec: int):
    """(encrypted, authenticated) of the link that carries the request, as the rule sees it."""
    enc, authn = SEC_STATES[sec][1]
    encrypted = enc != 0
    return encrypted, bool(authn) and (encrypted or not _authn_needs_encryption[0])


def may_read(mask: int, sec: int) -> bool:
    encrypted, authenticated = link_state(sec)
    return bool(
        mask & (READABLE | ((R_ENC | R_AUTHN | R_AUTHZ) if _convention[0] else 0))
        and (not mask & R_ENC or encrypted)
        and (not mask & R_AUTHN or authenticated)
        and not mask & R_AUTHZ
    )


def may_write(mask: int, sec: int) -> bool:
    encrypted, authenticated = link_state(sec)
    return bool(
        mask & (WRITEABLE | ((W_ENC | W_AUTHN | W_AUTHZ) if _convention[0] else 0))
        and (not mask & W_ENC or encrypted)
        and (not mask & W_AUTHN or authenticated)
        and not mask & W_AUTHZ
    )


def refusal(mask: int, sec: int, write: bool):
    """(acceptable error codes, class) for a refused access. Classes: 'requirement' = a security
    requirement is unmet; 'plain_bit' = requirement bits of that direction are set and met, only the
    READABLE/WRITEABLE bit is missing; 'no_permission_bit' = no bit of that direction is set at all."""
    encrypted, authenticated = link_state(sec)
    bit, enc, authn, authz, not_permitted = (
        (WRITEABLE, W_ENC, W_AUTHN, W_AUTHZ, E_WRITE_NOT_PERMITTED) if write
        else (READABLE, R_ENC, R_AUTHN, R_AUTHZ, E_READ_NOT_PERMITTED)
    )
    codes, requirement = set(), False
    if not mask & bit:
        codes.add(not_permitted)
    if mask & enc and not encrypted:
        codes.update((E_ENC, E_AUTHN))
        requirement = True
    if mask & authn and not authenticated:
        codes.add(E_AUTHN)
        if not encrypted:
            codes.add(E_ENC)
        requirement = True
    if mask & authz:
        codes.add(E_AUTHZ)
        requirement = True
    if requirement:
        return codes, 'requirement'
    return codes, ('plain_bit' if mask & (enc | authn | authz) else 'no_permission_bit')


# Known finding F11a: on the read paths the server never looks at the permission bits of an attribute that has no
# read bit at all (a write-only value is returned to the peer); tests/heart_rate_service_test.py::test_read_measurement
# pins this (it reads a characteristic declared with Permissions(0)). Its triggers are excluded by construction
# (counted with ctx.exclude) unless known_findings.json lists the signature, in which case a few are run so that
# the KNOWN-FINDING line is printed.
KNOWN_TRIGGERS = {
    'F11a/read_with_no_read_permission_bit': 'disclosed/no_permission_bit/read_paths',
}
_listed: dict = {}
_reproduced: dict = {}


def known_trigger(cell):
    _kind, mask, sec, path, _bearer = cell
    if path in WRITE_PATHS or may_read(mask, sec):
        return None
    if refusal(mask, sec, False)[1] == 'no_permission_bit':
        return 'F11a/read_with_no_read_permission_bit'
    return None


def excluded(ctx, cell) -> bool:
    """True if the cell is a trigger of a known finding and is not to be run."""
    trig = known_trigger(cell)
    if trig is None or ctx.replaying:
        return False
    if trig not in _listed:
        from vlib.runner import load_known, match_known

        _listed[trig] = match_known(PROPERTY, KNOWN_TRIGGERS[trig], load_known()) is not None
    key = (trig, OP_OF[cell[3]][0])
    if _listed[trig] and _reproduced.get(key, 0) < 2:
        _reproduced[key] = _reproduced.get(key, 0) + 1
        return False
    ctx.exclude(trig)
    return True


# ---------------------------------------------------------------------------
# matrix
# ---------------------------------------------------------------------------
def matrix_cells(ctx):
    """The cells of this process: sharded by index, a stratified third in the quick tier."""
    cells = []
    i = 0
    for ki, kind in enumerate(MASKED_KINDS + DECL_KINDS):
        masks = range(256) if kind in MASKED_KINDS else (READABLE,)
        for mask in masks:
            for pi, path in enumerate(PATHS[kind]):
                for bi, bearer in enumerate(BEARERS):
                    for sec in range(3):
                        mine = i % ctx.nshards == ctx.shard
                        i += 1
                        if not mine:
                            continue
                        if ctx.quick and kind in MASKED_KINDS and (mask + pi + bi + ki + sec + ctx.seed) % 3:
                            continue
                        cells.append([kind, mask, sec, path, bearer])
    # spread neighbouring masks/paths over different worlds (deterministic permutation)
    n = len(cells)
    step = 7919
    while n and _gcd(step, n) != 1:
        step += 2
    return [cells[(j * step) % n] for j in range(n)], i


def _gcd(a, b):
    while b:
        a, b = b, a % b
    return a


def _spread(cells):
    n = len(cells)
    step = 7919
    while n and _gcd(step, n) != 1:
        step += 2
    return [cells[(j * step) % n] for j in range(n)]


def state_cells(ctx):
    """Family 'states': the matrix of the masked kinds (all 256 masks x every path x bearer) in the nine further
    link-security states. Everything in the thorough tier (sharded by index); in the quick tier one mask in 36 per
    (kind, path, bearer, state), rotated by the seed."""
    cells = []
    i = 0
    for ki, kind in enumerate(MASKED_KINDS):
        for mask in range(256):
            for pi, path in enumerate(PATHS[kind]):
                for bi, bearer in enumerate(BEARERS):
                    for sec in EXTRA_SEC:
                        i += 1
                        if ctx.quick:
                            if (mask + 5 * pi + 3 * bi + 7 * ki + 11 * sec + ctx.seed) % 36:
                                continue
                        elif i % ctx.nshards != ctx.shard:
                            continue
                        cells.append([kind, mask, sec, path, bearer])
    return _spread(cells), i


def cross_link_pairs(ctx):
    """Directed steps for family 'states': the same read sent at once on both bearers while exactly one of the two
    links meets the attribute's requirement (one answer must be a refusal, the other the value)."""
    steps = []
    i = 0
    for kind in ('char', 'desc'):
        for mask in (READABLE | R_ENC, READABLE | R_AUTHN, READABLE | WRITEABLE | R_ENC | R_AUTHN):
            for bearer in BEARERS:
                for path in PATHS[kind]:
                    if path in WRITE_PATHS or 'second' in path or path in BLOB_PATHS:
                        continue
                    for sec in (7, 10, 9, 11) if mask & R_AUTHN else (6, 8, 7, 10):
                        i += 1
                        if (i % 4 != ctx.seed % 4) if ctx.quick else (i % ctx.nshards != ctx.shard):
                            continue
                        steps.append(['pair', [kind, mask, sec, path, bearer], path])
    return steps


def form_cells(ctx):
    """Family 'forms': masked kinds x all 256 masks x the further parameter forms and unlisted write operations x
    bearer x the three base security states. Everything in the thorough tier; one mask in 18 per
    (kind, path, bearer, state) in the quick tier, rotated by the seed."""
    cells = []
    i = 0
    for ki, kind in enumerate(MASKED_KINDS):
        for mask in range(256):
            for pi, path in enumerate(FORM_PATHS[kind]):
                for bi, bearer in enumerate(BEARERS):
                    for sec in BASE_SEC:
                        i += 1
                        if ctx.quick:
                            if (mask + 5 * pi + 3 * bi + 7 * ki + 11 * sec + ctx.seed) % 18:
                                continue
                        elif i % ctx.nshards != ctx.shard:
                            continue
                        cells.append([kind, mask, sec, path, bearer])
    return _spread(cells), i


# ---------------------------------------------------------------------------
# generators
# ---------------------------------------------------------------------------
def filler_strategy():
    char = st.fixed_dictionaries({
        'u128': st.booleans(),
        'props': st.sampled_from([0x02, 0x08, 0x0A, 0x12, 0x22, 0x3A, 0x04, 0x80]),
        'perm': st.sampled_from([0x01, 0x03, 0x02, 0x00, 0x05, 0x17, 0x0B, 0xFF]),
        'len': st.integers(0, 30),
        'ndesc': st.integers(0, 2),
    })
    return st.fixed_dictionaries({
        'u128': st.booleans(),
        'primary': st.booleans(),
        'chars': st.lists(char, max_size=3),
    })


def world_strategy():
    secret = st.lists(st.integers(0x80, 0xFF), min_size=40, max_size=40).map(bytes)
    opened = st.lists(st.integers(0x20, 0x7F), min_size=40, max_size=40).map(bytes)
    return st.fixed_dictionaries({
        'secret': secret,
        'open': opened,
        'slen': st.integers(8, 40),
        'pre': st.lists(filler_strategy(), max_size=3),
        'post': st.lists(filler_strategy(), max_size=2),
        'tprops': st.integers(0, 255),
        'vkind': st.sampled_from(['static', 'static', 'dyn', 'dyn_async', 'v2']),
        'mtu': st.one_of(st.just(23), st.integers(24, 80), st.integers(81, 247)),
        'eatt_mtu': st.one_of(st.just(64), st.integers(65, 256)),
        'gprimary': st.booleans(),
        'tsvc128': st.booleans(),
        # how the mask is put on the target: Permissions(mask), or Permissions.from_string() of the flag names
        'pform': st.sampled_from(['flags', 'flags', 'comma', 'pipe']),
    })


def cell_strategy():
    def paths_for(kind):
        if kind in FORM_PATHS:
            listed = st.sampled_from(PATHS[kind])
            return st.one_of(listed, listed, listed, st.sampled_from(FORM_PATHS[kind]))
        return st.sampled_from(PATHS[kind])

    base = st.integers(0, 2)
    sec = st.one_of(base, base, base, st.sampled_from(EXTRA_SEC))
    masked = st.sampled_from(MASKED_KINDS).flatmap(
        lambda k: st.tuples(st.just(k), st.integers(0, 255), sec, paths_for(k), st.sampled_from(BEARERS))
    )
    decl = st.sampled_from(DECL_KINDS).flatmap(
        lambda k: st.tuples(st.just(k), st.just(READABLE), st.integers(0, 2), paths_for(k), st.sampled_from(BEARERS))
    )
    return st.one_of(masked, masked, masked, masked, decl).map(list)


def program_strategy():
    # a step is one cell, or ['pair', cell, path2]: the same target/mask/security reached at once
    # through the cell's bearer and, by path2, through the other bearer
    def step(cell):
        kind = cell[0]
        reads = [p for p in PATHS[kind] if p not in WRITE_PATHS and 'second' not in p]
        if cell[3] in WRITE_PATHS or 'second' in cell[3]:
            return st.just(cell)
        return st.one_of(st.just(cell), st.just(cell), st.just(cell),
                         st.sampled_from(reads).map(lambda p2: ['pair', cell, p2]))

    return st.tuples(world_strategy(), st.lists(cell_strategy().flatmap(step), min_size=4, max_size=30))


# ---------------------------------------------------------------------------
# world
# ---------------------------------------------------------------------------
class Env:
    pass


def _uuid16(n):
    from bumble.core import UUID

    return UUID.from_16_bits(n)


def _uuid128(seed: int):
    from bumble.core import UUID

    return UUID.from_bytes(bytes((0x21 + (seed * 7 + k * 3) % 0x5E) for k in range(16)))


def _filler_service(spec, idx):
    from bumble.att import Attribute
    from bumble.gatt import Characteristic, Descriptor, Service

    chars = []
    for j, c in enumerate(spec['chars']):
        n = idx * 16 + j
        descs = [
            Descriptor(_uuid16(0xB900 + n * 4 + k), Attribute.Permissions(c['perm']), bytes([0x41 + k]) * 3)
            for k in range(c['ndesc'])
        ]
        chars.append(
            Characteristic(
                _uuid128(0x100 + n) if c['u128'] else _uuid16(0xB100 + n),
                Characteristic.Properties(c['props']),
                Attribute.Permissions(c['perm']),
                bytes((0x20 + (n + k) % 0x5F) for k in range(c['len'])),
                descs,
            )
        )
    uuid = _uuid128(0x200 + idx) if spec['u128'] else _uuid16(0xB000 + idx)
    return Service(uuid, chars, primary=spec['primary'])


async def build_env(params) -> Env:
    from bumble import att, l2cap
    from bumble.att import Attribute, AttributeValue, AttributeValueV2
    from bumble.gatt import Characteristic, CharacteristicDeclaration, Descriptor, IncludedServiceDeclaration, Service

    env = Env()
    env.params = params
    w = world.World(2)
    await w.power_on()
    victim = w[0].device
    server = victim.gatt_server
    server.register_eatt()
    perms = Attribute.Permissions

    for i, f in enumerate(params['pre']):
        victim.add_service(_filler_service(f, i))

    # open group and target group (service-typed attributes; the target's permissions get the mask)
    gprimary = bool(params['gprimary'])
    og = Service(_uuid128(0x300), [Characteristic(_uuid16(0xB7F0), Characteristic.Properties.READ, perms(READABLE), b'og')],
                 primary=gprimary)
    tg = Service(_uuid128(0x301), [Characteristic(_uuid16(0xB7F1), Characteristic.Properties.READ, perms(READABLE), b'tg')],
                 primary=gprimary)
    victim.add_service(og)
    victim.add_service(tg)

    # target service: include, open characteristic + descriptor, target characteristic + descriptor
    inc = Service(_uuid16(0xA0E0), [], primary=False)
    od = Descriptor(_uuid16(D16), perms(READABLE), b'')
    o1 = Characteristic(_uuid16(T16), Characteristic.Properties.READ, perms(READABLE), b'', [od])
    td = Descriptor(_uuid16(D16), perms(READABLE), b'')
    tc = Characteristic(_uuid16(T16), Characteristic.Properties(params['tprops']), perms(READABLE), b'', [td])
    ts = Service(_uuid128(0x302) if params['tsvc128'] else _uuid16(0xA0F0), [o1, tc], included_services=[inc])
    victim.add_service(ts)

    for i, f in enumerate(params['post']):
        victim.add_service(_filler_service(f, 8 + i))

    tc_decl = next(a for a in server.attributes if isinstance(a, CharacteristicDeclaration) and a.characteristic is tc)
    inc_decl = next(a for a in server.attributes if isinstance(a, IncludedServiceDeclaration) and a.service is inc)

    # dynamic value kinds keep the server-side value in a store the harness can inspect
    env.store = {}
    vkind = params['vkind']

    def dynamic(key):
        if vkind == 'dyn':
            return AttributeValue(read=lambda _c: env.store[key], write=lambda _c, v: env.store.__setitem__(key, bytes(v)))
        if vkind == 'dyn_async':
            async def rd(_c):
                await asyncio.sleep(0.01)
                return env.store[key]

            async def wr(_c, v):
                await asyncio.sleep(0.01)
                env.store[key] = bytes(v)

            return AttributeValue(read=rd, write=wr)
        if vkind == 'v2':
            return AttributeValueV2(read=lambda _b: env.store[key], write=lambda _b, v: env.store.__setitem__(key, bytes(v)))
        return None

    env.attrs = {'char': tc, 'desc': td, 'group': tg, 'decl_service': ts, 'decl_char': tc_decl, 'decl_include': inc_decl}
    env.neighbour = {'char': o1, 'desc': od, 'group': og, 'decl_service': o1, 'decl_char': o1, 'decl_include': o1}
    env.natural = {k: bytes(a.value) for k, a in env.attrs.items() if k in ('group',) + DECL_KINDS}
    env.natural['og'] = bytes(og.value)
    env.og = og
    env.dyn = {}
    for key in ('char', 'desc'):
        d = dynamic(key)
        if d is not None:
            env.dyn[key] = d
            env.attrs[key].value = d
            env.store[key] = b''
    env.types = {
        'char': T16, 'desc': D16, 'group': UUID_PRIMARY if gprimary else UUID_SECONDARY,
        'decl_service': UUID_PRIMARY, 'decl_char': UUID_CHARACTERISTIC, 'decl_include': UUID_INCLUDE,
    }

    # peers
    conn_c, conn_p = await w.connect_le(1, 0)
    raw = world.RawPeer(w, 9)
    await raw.start()
    conn_r = await raw.connect_to(victim)
    env.victim_conns = [conn_p, conn_r]
    env.conn_of = {'eatt': conn_p, 'fixed': conn_r}  # the victim's link under each bearer

    spec = l2cap.LeCreditBasedChannelSpec(psm=att.EATT_PSM, mtu=int(params['eatt_mtu']))
    channels = await w[1].device.l2cap_channel_manager.create_enhanced_credit_based_channels(conn_c, spec, 1)
    channel = channels[0]
    env.eatt_in = []
    channel.sink = lambda sdu: env.eatt_in.append(bytes(sdu))
    env.other_in = []  # every L2CAP PDU the second device's host receives (disclosure scan only)
    w[1].host.on('l2cap_pdu', lambda _h, cid, pdu: env.other_in.append((cid, bytes(pdu))))

    mtu = int(params['mtu'])
    fixed_mtu = 23
    if mtu != 23:
        raw.take()
        raw.send(4, struct.pack('<BH', 0x02, mtu))
        await asyncio.sleep(WAIT)
        rsp = [p for _h, cid, p in raw.take() if cid == 4]
        if len(rsp) != 1 or len(rsp[0]) != 3 or rsp[0][0] != 0x03:
            raise HarnessError(f'C11: Exchange MTU not answered as expected: {rsp!r}')
        fixed_mtu = max(23, min(mtu, struct.unpack('<H', rsp[0][1:3])[0]))
    env.mtu = {'fixed': fixed_mtu, 'eatt': min(int(params['eatt_mtu']), channel.peer_mtu)}
    env.world, env.raw, env.channel, env.server = w, raw, channel, server
    return env


# ---------------------------------------------------------------------------
# one cell
# ---------------------------------------------------------------------------
def _fit(secret: bytes, length: int) -> bytes:
    return (secret * (length // len(secret) + 1))[:length]


def plan_cell(env, cell):
    """Value lengths and request bytes for a cell (pure function of world parameters and cell)."""
    kind, mask, sec, path, bearer = cell
    p = env.params
    m = env.mtu[bearer]
    target = env.attrs[kind]
    neigh = env.neighbour[kind]
    h, nh = target.handle, neigh.handle
    slen = int(p['slen'])
    if kind == 'group':
        length = 16
    elif kind in DECL_KINDS:
        length = len(env.natural[kind])
    else:
        cap = {
            'rbt_second': (m - 2) // 2 - 2, 'rm_with': m - 1 - 8, 'rmv_alone': m - 3, 'rmv_with': m - 1 - 4 - 8,
            'fbtv_eq': m - 7, 'fbtv_ne': m - 7,
            'rm_first': m - 1 - 8, 'rm_mid': m - 1 - 8, 'rmv_first': m - 1 - 4 - 8, 'rmv_mid': m - 1 - 6 - 8,
            'blob_short': m - 1,
        }.get(path, 40)
        length = max(1, min(slen, cap))
        if path in ('blob0', 'blobk'):
            length = m + (mask % 5) + (BLOB_OFFSET if path == 'blobk' else 0)
        elif path in ('blob_last', 'blob_end'):
            length = m + (mask % 5)
    value = env.natural[kind] if kind in DECL_KINDS else _fit(bytes(p['secret']), length)
    # neighbour value length
    if path in ('rbt_second', 'rbgt_second'):
        nlen = length
    elif path in ('rm_with', 'rm_first'):
        nlen = max(1, min(8, m - 1 - length))
    elif path in ('rmv_with', 'rmv_first'):
        nlen = max(1, min(8, m - 1 - 4 - length))
    elif path == 'rm_mid':
        nlen = max(1, min(4, (m - 1 - length) // 2))
    elif path == 'rmv_mid':
        nlen = max(1, min(4, (m - 1 - 6 - length) // 2))
    else:
        nlen = 8
    if neigh is env.og:
        nvalue = env.natural['og'] if nlen >= 16 else env.natural['og'][:nlen]
    else:
        nvalue = _fit(bytes(p['open']), nlen)
    new_value = _fit(bytes(p['open'])[::-1], max(1, min(len(value) if kind in DECL_KINDS or kind == 'group' else 12, m - 3)))
    if new_value == value:
        new_value = bytes([new_value[0] ^ 1]) + new_value[1:]
    if path in ('write_req_empty', 'write_cmd_empty'):
        new_value = b''
    elif path == 'signed_cmd':
        new_value = new_value[:max(1, m - 15)]
    typ = env.types[kind]
    typ128 = UUID128_BASE + struct.pack('<HH', typ, 0)
    off = {'blob0': 0, 'blobk': BLOB_OFFSET, 'blob_last': length - 1, 'blob_end': length, 'blob_short': 0}.get(path)
    req2 = None
    if path in ('blob_last', 'blob_end', 'blob_short'):
        req = struct.pack('<BHH', 0x0C, h, off)
    elif path == 'rbt_128':
        req = struct.pack('<BHH', 0x08, h, 0xFFFF) + typ128
    elif path == 'rbt_exact':
        req = struct.pack('<BHHH', 0x08, h, h, typ)
    elif path == 'rbgt_128':
        req = struct.pack('<BHH', 0x10, h, 0xFFFF) + typ128
    elif path == 'rbgt_exact':
        req = struct.pack('<BHHH', 0x10, h, h, typ)
    elif path == 'rm_first':
        req = struct.pack('<BHH', 0x0E, h, nh)
    elif path == 'rm_mid':
        req = struct.pack('<BHHH', 0x0E, nh, h, nh)
    elif path == 'rmv_first':
        req = struct.pack('<BHH', 0x20, h, nh)
    elif path == 'rmv_mid':
        req = struct.pack('<BHHH', 0x20, nh, h, nh)
    elif path == 'write_req_empty':
        req = struct.pack('<BH', 0x12, h)
    elif path == 'write_cmd_empty':
        req = struct.pack('<BH', 0x52, h)
    elif path == 'prep_exec':
        req = struct.pack('<BHH', 0x16, h, 0) + new_value  # Prepare Write Request at offset 0 ...
        req2 = b'\x18\x01'                                  # ... then Execute Write Request: write the queue
    elif path == 'signed_cmd':
        req = struct.pack('<BH', 0xD2, h) + new_value + b'\x5a' * 12  # value + 12-byte authentication signature
    elif path == 'read':
        req = struct.pack('<BH', 0x0A, h)
    elif path == 'blob0':
        req = struct.pack('<BHH', 0x0C, h, 0)
    elif path == 'blobk':
        req = struct.pack('<BHH', 0x0C, h, BLOB_OFFSET)
    elif path == 'rbt_first':
        req = struct.pack('<BHHH', 0x08, h, 0xFFFF, typ)
    elif path == 'rbt_second':
        req = struct.pack('<BHHH', 0x08, nh, 0xFFFF, typ)
    elif path == 'rbgt_first':
        req = struct.pack('<BHHH', 0x10, h, 0xFFFF, typ)
    elif path == 'rbgt_second':
        req = struct.pack('<BHHH', 0x10, nh, 0xFFFF, typ)
    elif path == 'rm_alone':
        req = struct.pack('<BH', 0x0E, h)
    elif path == 'rm_with':
        req = struct.pack('<BHH', 0x0E, nh, h)
    elif path == 'rmv_alone':
        req = struct.pack('<BH', 0x20, h)
    elif path == 'rmv_with':
        req = struct.pack('<BHH', 0x20, nh, h)
    elif path == 'fbtv_eq':
        req = struct.pack('<BHHH', 0x06, 1, 0xFFFF, typ) + value
    elif path == 'fbtv_ne':
        req = struct.pack('<BHHH', 0x06, 1, 0xFFFF, typ) + bytes([value[0] ^ 0x01]) + value[1:]
    elif path == 'write_req':
        req = struct.pack('<BH', 0x12, h) + new_value
    elif path == 'write_cmd':
        req = struct.pack('<BH', 0x52, h) + new_value
    else:
        raise HarnessError(f'C11: unknown path {path}')
    if len(req) > m:
        raise HarnessError(f'C11: request for {cell} longer than ATT_MTU {m}')
    return {'value': value, 'nvalue': nvalue, 'new': new_value, 'req': req, 'req2': req2, 'off': off, 'typ': typ,
            'h': h, 'nh': nh, 'm': m}


def install(env, cell, plan):
    """Neutral state everywhere, then mask + secret on the target, security state on the links."""
    from bumble.att import Attribute

    perms = Attribute.Permissions
    kind, mask, sec = cell[0], cell[1], cell[2]
    p = env.params
    opened = bytes(p['open'])
    for key in ('char', 'desc'):
        a = env.attrs[key]
        a.permissions = perms(READABLE | WRITEABLE)
        _set_value(env, key, _fit(opened[5:] + opened[:5], 9))
    for key in ('group',) + DECL_KINDS:
        a = env.attrs[key]
        a.permissions = perms(READABLE)
        a.value = env.natural[key]
    env.og.value = env.natural['og']
    for key in ('char', 'desc'):
        env.neighbour[key].permissions = perms(READABLE)
        env.neighbour[key].value = _fit(opened, 8)
    target = env.attrs[kind]
    target.permissions = perms(mask)
    env.pform = 'flags'
    form = p.get('pform', 'flags')
    if form != 'flags' and mask and kind in MASKED_KINDS:
        # the same flags declared by name, the way Attribute() takes them
        names = ('|' if form == 'pipe' else ',').join(n for b, n in PERM_NAMES if mask & b)
        try:
            target.permissions = perms.from_string(names)
            env.pform = form
        except (KeyError, TypeError, ValueError):
            env.pform = 'rejected'  # the attribute cannot be declared this way: nothing to judge, counted
    _set_value(env, kind, plan['value'])
    env.neighbour[kind].value = plan['nvalue']
    this = env.conn_of[cell[4]]
    for conn in env.victim_conns:
        enc, authn = SEC_STATES[sec][1 if conn is this else 2]
        conn.encryption = enc
        conn.authenticated = authn


def _set_value(env, key, value):
    if key in env.dyn:
        env.store[key] = value
    else:
        env.attrs[key].value = value


def _get_value(env, key):
    if key in env.dyn:
        return env.store[key]
    v = env.attrs[key].value
    return bytes(v) if isinstance(v, (bytes, bytearray)) else v


def _send(env, bearer, pdu):
    if bearer == 'fixed':
        env.raw.send(4, pdu)
    else:
        env.channel.write(pdu)


def _clear(env):
    env.raw.take()
    env.eatt_in.clear()
    env.other_in.clear()


def _collect(env):
    raw = env.raw.take()
    got = {
        'fixed': [p for _h, cid, p in raw if cid == 4],
        'eatt': list(env.eatt_in),
        'all': [p for _h, _cid, p in raw] + list(env.eatt_in) + [p for _cid, p in env.other_in],
        # PDUs outside the two ATT bearers (other CIDs of the raw peer, fixed channels of the second device)
        'side': [p for _h, cid, p in raw if cid != 4] + [p for cid, p in env.other_in if cid < 0x40],
    }
    env.eatt_in.clear()
    env.other_in.clear()
    return got


def _leaks(value: bytes, pdus) -> bool:
    if len(value) < 4:
        return any(value in p for p in pdus)
    grams = {value[i:i + 4] for i in range(len(value) - 3)}
    for p in pdus:
        for i in range(len(p) - 3):
            if p[i:i + 4] in grams:
                return True
    return False


def _entries(body: bytes, size: int):
    if size <= 0 or not body or len(body) % size:
        return None
    return [body[i:i + size] for i in range(0, len(body), size)]


def _u16(b):
    return struct.unpack('<H', b[:2])[0]


class _Probe:
    """Stands in for ctx when a failing cell is re-run alone to make its replay self-contained."""

    def __init__(self):
        self.failures = {}
        self.replaying = True

    def exclude(self, *a):
        pass

    def fail(self, sig, what, case):
        self.failures.setdefault(sig, (what, case))

    def case(self, *a, **k):
        pass

    def label(self, *a):
        pass


def judge(env, cell, plan, got, after, follow):
    """Oracle for one cell. Returns a list of (signature, what). Cells whose only reason for refusal is a missing
    READABLE/WRITEABLE bit while requirement bits of that direction are set and met ('plain_bit') are judged under
    both readings of "readable"/"writable" (strict bit, code-base convention); either one may hold."""
    _kind, mask, sec, path, _bearer = cell
    write = path in WRITE_PATHS
    # the authenticated flag on an unencrypted link: does it meet an authentication requirement? both readings
    readings = (False, True) if sec == SEC_OPEN_AUTHN and mask & (W_AUTHN if write else R_AUTHN) else (False,)
    first = None
    for needs_encryption in readings:
        _authn_needs_encryption[0] = needs_encryption
        try:
            strict = _judge(env, cell, plan, got, after, follow)
            if strict and not (may_write if write else may_read)(mask, sec) and refusal(mask, sec, write)[1] == 'plain_bit':
                _convention[0] = True
                try:
                    lenient = _judge(env, cell, plan, got, after, follow)
                finally:
                    _convention[0] = False
                if not lenient:
                    strict = []
        finally:
            _authn_needs_encryption[0] = False
        if not strict:
            return []
        if first is None:
            first = strict
    return first


def _judge(env, cell, plan, got, after, follow):
    kind, mask, sec, path, bearer = cell
    op, opcode = OP_OF[path]
    write = path in WRITE_PATHS
    can_read, can_write = may_read(mask, sec), may_write(mask, sec)
    h, m, value = plan['h'], plan['m'], plan['value']
    mine = got[bearer]
    other = got['eatt' if bearer == 'fixed' else 'fixed']
    out = []
    desc = f'{kind} handle 0x{h:04X} permissions 0x{mask:02X} link {SEC[sec]} via {path} on {bearer}'

    r_codes, r_class = refusal(mask, sec, False)
    w_codes, w_class = refusal(mask, sec, True)
    # one bucket per root cause: nothing looks at the READABLE/WRITEABLE bits on any path (F11a), while
    # the other classes are kept apart by ATT operation (= handler)
    r_site = 'read_paths' if r_class in ('plain_bit', 'no_permission_bit') else op
    w_site = 'write_paths' if w_class == 'plain_bit' else op

    # -- no disclosure (every cell, every PDU any peer received)
    if not can_read and kind not in DECL_KINDS:
        if _leaks(value, got['all']):
            out.append((f'disclosed/{r_class}/{r_site}', f'{desc}: the value appears in a PDU sent to the peer although the rule refuses reading'))
    if other:
        out.append((f'bad_answer/other_bearer/{op}', f'{desc}: {len(other)} PDU(s) arrived on the other bearer'))

    def error_of(pdu):
        if len(pdu) == 5 and pdu[0] == 0x01:
            return pdu[1], _u16(pdu[2:4]), pdu[4]
        return None

    if write:
        if can_write:
            if path in UNLISTED_WRITE_PATHS:
                return out  # not an operation the statement lists: whether the server supports it is not judged
            if after != plan['new']:
                out.append((f'over_blocked/write/{op}', f'{desc}: the rule grants writing but the server-side value did not take the written value'))
            if path in WRITE_REQUEST_PATHS and not (len(mine) == 1 and mine[0] == b'\x13'):
                out.append((f'over_blocked/write_answer/{op}', f'{desc}: granted Write Request not answered by exactly one Write Response: {_hex(mine)}'))
        else:
            if after != value:
                out.append((f'changed/{w_class}/{w_site}', f'{desc}: the server-side value changed although the rule refuses writing'))
            if path in WRITE_REQUEST_PATHS and not out:  # (an answer to a write that took effect is not judged again)
                if not mine:
                    out.append((f'unanswered/{op}', f'{desc}: refused Write Request got no answer'))
                else:
                    e = error_of(mine[0]) if len(mine) == 1 else None
                    if e is None or e[0] != opcode or e[2] not in w_codes:
                        out.append((f'bad_answer/{w_class}/{w_site}',
                                    f'{desc}: refused write answered by {_hex(mine)}, expected one Error Response for 0x{opcode:02X} with a code in {sorted(w_codes)}'))
        return out

    # -- reads: the value must not change either
    if after != value:
        out.append((f'changed/by_read/{op}', f'{desc}: the server-side value changed during a read'))

    if not can_read:
        if not mine:
            out.append((f'unanswered/{op}', f'{desc}: the refused request got no answer at all'))
            return out
        ok = False
        if len(mine) == 1:
            e = error_of(mine[0])
            codes = set(r_codes)
            if op == 'find_by_type_value':
                codes.add(E_NOT_FOUND)
            if path == 'blob_short':
                codes.add(E_NOT_LONG)  # also applies to this request: the value is not a long one
            if e is not None and e[0] == opcode and e[2] in codes:
                ok = True
            elif e is None and path in ('rbt_second', 'rbgt_second'):
                hs = _listed_handles(mine[0], opcode)
                ok = bool(hs) and all(x < h for x in hs)
            elif e is None and op == 'find_by_type_value' and mine[0][:1] == b'\x07':
                hs = _listed_handles(mine[0], opcode)
                ok = hs is not None and h not in hs
                if hs is not None and h in hs and path == 'fbtv_eq':
                    out.append((f'disclosed/{r_class}/{r_site}', f'{desc}: Find By Type Value confirms the guessed value of an attribute the rule refuses to read'))
                    return out
        if not ok and not out:  # (the answer that disclosed the value is not judged a second time)
            out.append((f'bad_answer/{r_class}/{r_site}',
                        f'{desc}: refused read answered by {_hex(mine)}, expected one Error Response for 0x{opcode:02X} with a code in {sorted(r_codes)}'))
        return out

    # -- granted read: no over-blocking
    if path == 'fbtv_ne':
        if len(mine) != 1 or not (mine[0][:1] == b'\x07' or (error_of(mine[0]) or (0,))[0] == opcode):
            out.append((f'over_blocked/read_answer/{op}', f'{desc}: request not answered by exactly one response: {_hex(mine)}'))
        return out
    delivered = _delivered(path, opcode, plan, mine, follow)
    if delivered is not True:
        out.append((f'over_blocked/read/{op}', f'{desc}: the rule grants reading but {delivered}; answer {_hex(mine)}'))
    return out


def _hex(pdus):
    return '[' + ', '.join(p.hex() for p in pdus) + ']' if pdus else 'nothing'


def _listed_handles(pdu: bytes, req_opcode: int):
    """Attribute handles listed in a Read By Type / Read By Group Type / Find By Type Value response."""
    if req_opcode == 0x06 and pdu[:1] == b'\x07':
        es = _entries(pdu[1:], 4)
        return None if es is None else [_u16(e) for e in es]
    if req_opcode in (0x08, 0x10) and len(pdu) >= 2 and pdu[0] == req_opcode + 1:
        es = _entries(pdu[2:], pdu[1])
        return None if es is None else [_u16(e) for e in es]
    return None


def _delivered(path, opcode, plan, mine, follow):
    """True if the granted read delivered the target's value, else a description."""
    h, m, value = plan['h'], plan['m'], plan['value']
    if len(mine) != 1:
        return f'{len(mine)} PDUs came back'
    pdu = mine[0]
    if path == 'read':
        return pdu == b'\x0b' + value[:m - 1] or 'the Read Response does not carry the value'
    if path in ('blob0', 'blobk'):
        off = BLOB_OFFSET if path == 'blobk' else 0
        return pdu == b'\x0d' + value[off:off + m - 1] or 'the Read Blob Response does not carry the value part'
    if path == 'blob_last':
        return pdu == b'\x0d' + value[-1:] or 'the Read Blob Response does not carry the last byte of the value'
    if path == 'blob_end':
        # nothing is left to deliver at offset == length: any single answer to the request will do
        return pdu[:1] == b'\x0d' or (len(pdu) == 5 and pdu[:2] == b'\x01\x0c') or 'the Read Blob Request was not answered'
    if path == 'blob_short':
        # a server may answer Attribute Not Long, or send the value
        return (pdu == b'\x0d' + value or (len(pdu) == 5 and pdu[:2] == b'\x01\x0c' and pdu[4] == E_NOT_LONG)
                or 'neither the value nor Attribute Not Long came back')
    if path == 'rm_first':
        return pdu == b'\x0f' + value + plan['nvalue'] or 'the Read Multiple Response does not carry both values'
    if path == 'rm_mid':
        # (what follows the target - the first handle a second time - is not judged)
        return pdu.startswith(b'\x0f' + plan['nvalue'] + value) or 'the Read Multiple Response does not carry the value'
    if path in ('rmv_first', 'rmv_mid'):
        nv = plan['nvalue']
        lv = lambda b: struct.pack('<H', len(b)) + b
        want = b'\x21' + (lv(value) + lv(nv) if path == 'rmv_first' else lv(nv) + lv(value))
        return pdu.startswith(want) or 'the Read Multiple Variable Response does not carry the value'
    if path == 'rm_alone':
        return pdu == b'\x0f' + value[:m - 1] or 'the Read Multiple Response does not carry the value'
    if path == 'rm_with':
        return pdu == b'\x0f' + plan['nvalue'] + value or 'the Read Multiple Response does not carry both values'
    if path == 'rmv_alone':
        return pdu == b'\x21' + struct.pack('<H', len(value)) + value or 'the Read Multiple Variable Response does not carry the value'
    if path == 'rmv_with':
        nv = plan['nvalue']
        want = b'\x21' + struct.pack('<H', len(nv)) + nv + struct.pack('<H', len(value)) + value
        return pdu == want or 'the Read Multiple Variable Response does not carry both values'
    if path == 'fbtv_eq':
        hs = _listed_handles(pdu, opcode)
        return (hs is not None and h in hs) or 'Find By Type Value does not list the attribute whose value was given'
    # ranged reads, possibly continued by follow-up requests
    width = 2 if opcode == 0x08 else 4
    cut = min(m - (4 if opcode == 0x08 else 6), 253 if opcode == 0x08 else 251)
    for pdu in [pdu] + [f[0] for f in follow if len(f) == 1]:
        if len(pdu) < 2 or pdu[0] != opcode + 1:
            return 'a ranged read was not answered by a response listing attributes'
        es = _entries(pdu[2:], pdu[1])
        if es is None:
            return 'the response is malformed'
        for e in es:
            if _u16(e) == h:
                return e[width:] == value[:cut] or 'the listed value is not the attribute value'
    return 'the target was not delivered, also not by follow-up requests'


async def exec_cell(env, cell, second=None):
    """Runs one cell (optionally with a second read in flight on the other bearer).
    Returns (plan, got, server-side value after, follow-up answers, plan2)."""
    kind, _mask, _sec, path, bearer = cell
    plan = plan_cell(env, cell)
    install(env, cell, plan)
    plan2 = None
    if second is not None:
        plan2 = plan_cell(env, second)
        if (plan2['value'] != plan['value'] or plan2['nvalue'] != plan['nvalue']
                or 'second' in path or 'second' in second[3]):
            # the two paths need different value lengths, or a ranged read that may need follow-up
            # requests is involved: not run as a pair
            plan2 = None
    _clear(env)
    _send(env, bearer, plan['req'])
    if plan2 is not None:
        _send(env, second[4], plan2['req'])
    await asyncio.sleep(WAIT)
    got = _collect(env)
    if plan['req2'] is not None:
        _send(env, bearer, plan['req2'])
        await asyncio.sleep(WAIT)
        more = _collect(env)
        for key in got:
            got[key] += more[key]
    after = _get_value(env, kind)
    follow = []
    if path in ('rbt_second', 'rbgt_second') and plan2 is None and len(got[bearer]) == 1:
        # a granted ranged read may be continued after the last returned handle
        opcode = OP_OF[path][1]
        last = got[bearer][0]
        for _ in range(3):
            hs = _listed_handles(last, opcode)
            if not hs or plan['h'] in hs or max(hs) >= plan['h']:
                break
            _send(env, bearer, struct.pack('<BHHH', opcode, max(hs) + 1, 0xFFFF, plan['typ']))
            await asyncio.sleep(WAIT)
            more = _collect(env)
            got['all'] += more['all']
            follow.append(more[bearer])
            if len(more[bearer]) != 1:
                break
            last = more[bearer][0]
    return plan, got, after, follow, plan2


def classify(cell):
    kind, mask, sec, path, bearer = cell
    write = path in WRITE_PATHS
    granted = may_write(mask, sec) if write else may_read(mask, sec)
    req_bits = (W_ENC | W_AUTHN | W_AUTHZ) if write else (R_ENC | R_AUTHN | R_AUTHZ)
    labels = {f'path:{path}', f'sec:{SEC[sec]}', f'bearer:{bearer}', f'kind:{kind}'}
    enc_bit, authn_bit = (W_ENC, W_AUTHN) if write else (R_ENC, R_AUTHN)
    may = may_write if write else may_read
    this, other = SEC_STATES[sec][1], SEC_STATES[sec][2]
    if sec == SEC_OPEN_AUTHN:
        if mask & enc_bit and may(mask, 2):
            labels.add('state:authn_flag_unencrypted/refused_only_for_encryption')
        if mask & authn_bit and not mask & enc_bit:
            labels.add('state:authn_flag_unencrypted/open_authentication_requirement')
    elif this[0] == 2:
        if granted and mask & enc_bit:
            labels.add('state:encryption_mode2/granted_with_encryption_requirement')
    elif this != other:
        elsewhere = may(mask, _BASE_OF[other])
        if elsewhere and not granted:
            labels.add('state:cross_link/refused_while_the_other_link_qualifies')
        elif granted and not elsewhere and mask & (enc_bit | authn_bit):
            labels.add('state:cross_link/granted_while_the_other_link_does_not_qualify')
    if path in ALL_FORM_PATHS:
        labels.add('family:forms')
    if not granted:
        labels.add('model:refused')
        labels.add('model:refused_' + refusal(mask, sec, write)[1])
    elif mask & req_bits:
        labels.add('model:granted_with_requirement')
    else:
        labels.add('model:granted_plain')
    nontrivial = (not granted) or bool(mask & req_bits)
    return labels, nontrivial


def run_program(ctx, params, steps, confirm=True) -> None:
    """Builds the world and runs the steps (cells or pairs) in it."""
    params = dict(DEFAULT_WORLD, **params)
    steps = [list(s) for s in steps]
    loop = vloop.new_loop()
    try:
        try:
            env = loop.complete(build_env(params), horizon=600.0)
        except (vloop.Stalled, vloop.HorizonExceeded, vloop.BudgetExceeded) as e:
            raise HarnessError(f'C11: world set-up did not finish ({type(e).__name__})')
        for step in steps:
            if step and step[0] == 'pair':
                cell, second = list(step[1]), None
                kind, mask, sec, _path, bearer = cell
                # (seen from the other link, a state with two different links is the mirrored one)
                second = [kind, mask, MIRROR.get(int(sec), int(sec)), step[2], 'eatt' if bearer == 'fixed' else 'fixed']
            else:
                cell, second = list(step), None
            cell[1], cell[2] = int(cell[1]), int(cell[2])
            if excluded(ctx, cell):
                ctx.label('excluded_known_trigger')
                continue
            try:
                plan, got, after, follow, plan2 = loop.complete(exec_cell(env, cell, second), horizon=120.0)
            except (vloop.Stalled, vloop.HorizonExceeded, vloop.BudgetExceeded) as e:
                raise HarnessError(f'C11: cell {cell} did not finish ({type(e).__name__})')
            if plan2 is not None:
                # two requests were in flight: judge each bearer's answer on its own
                labels, nontrivial = classify(cell)
                labels.add('pair_in_flight')
                if cell[2] in MIRROR:
                    labels.add('pair_in_flight_links_differ')
                    if may_read(cell[1], cell[2]) != may_read(second[1], second[2]):
                        labels.add('pair_in_flight_one_refused_one_granted')
                verdicts = []
                for c, pl in ((cell, plan), (second, plan2)):
                    # a leak is attributed to the request on whose bearer it arrived
                    g = {'fixed': got['fixed'] if c[4] == 'fixed' else [], 'eatt': got['eatt'] if c[4] == 'eatt' else [],
                         'all': got[c[4]] + ([] if c is second else got['side'])}
                    verdicts += judge(env, c, pl, g, after, [])
                case = {'kind': 'program', 'world': _non_default(params), 'cells': [step]}
                for sig, what in verdicts:
                    ctx.fail(sig, what, case)
                ctx.case(['pair', cell, second[3]], nontrivial, labels,
                         sample={'pair': [cell, second[3]], 'vkind': params['vkind'], 'mtu': env.mtu})
                continue
            verdicts = judge(env, cell, plan, got, after, follow)
            labels, nontrivial = classify(cell)
            labels.add(f'vkind:{params["vkind"]}')
            if cell[1] and cell[0] in MASKED_KINDS:
                labels.add(f'pform:{env.pform}')
            if env.mtu[cell[4]] > 64:
                labels.add('mtu_above_64')
            for sig, what in verdicts:
                report(ctx, sig, what, params, cell, steps, confirm)
            ctx.case(cell, nontrivial, labels,
                     sample={'cell': cell, 'vkind': params['vkind'], 'mtu': env.mtu[cell[4]],
                             'handle': plan['h'], 'answer': [p.hex() for p in got[cell[4]]][:2]})
        if loop.errors:
            # exceptions that escaped callbacks/tasks while serving the requests: diagnostic only
            ctx.label('loop_errors_seen')
    finally:
        loop.shutdown()


_confirmed: dict = {}


def _non_default(params) -> dict:
    """World parameters that differ from DEFAULT_WORLD (replay fills in the rest)."""
    return {k: v for k, v in params.items() if DEFAULT_WORLD.get(k) != v}


def report(ctx, sig, what, params, cell, steps, confirm) -> None:
    """Records a failure with a self-contained case: the cell alone in the smallest world where the
    same signature reproduces (minimal world, else this world), else the whole program so far."""
    own = {'kind': 'program', 'world': _non_default(params), 'cells': [cell]}
    if not confirm or ctx.replaying or _confirmed.get(sig, 0) >= 2:
        ctx.fail(sig, what, own)
        return
    _confirmed[sig] = _confirmed.get(sig, 0) + 1
    minimal = dict(DEFAULT_WORLD, mtu=params['mtu'] if cell[4] == 'fixed' else 23,
                   eatt_mtu=params['eatt_mtu'] if cell[4] == 'eatt' else 64)
    for candidate in (minimal, dict(minimal, vkind=params['vkind'], slen=params['slen']), params):
        probe = _Probe()
        run_program(probe, candidate, [cell], confirm=False)
        if sig in probe.failures:
            ctx.fail(sig, probe.failures[sig][0], {'kind': 'program', 'world': _non_default(candidate), 'cells': [cell]})
            return
    k = steps.index(cell) if cell in steps else len(steps) - 1
    ctx.fail(sig + '/history_dependent', what + ' (only after the preceding cells of the program)',
             {'kind': 'program', 'world': _non_default(params), 'cells': steps[: k + 1]})


# ---------------------------------------------------------------------------
# family 'paired': the link security state is not installed by the harness but REACHED the way a peer reaches it -
# by pairing (Just Works / passkey entry / numeric comparison, legacy or Secure Connections), and by coming back
# later and encrypting the link with the stored key.
PAIRED_METHODS = ('just_works', 'passkey', 'numeric')
PAIRED_SECRETS = {'r_authn': b'AUTHN-ONLY-SECRET', 'r_enc': b'ENC-ONLY-SECRET', 'open': b'open value'}


def paired_strategy():
    return st.fixed_dictionaries(
        {
            'kind': st.just('paired'),
            'method': st.sampled_from(PAIRED_METHODS),
            'sc': st.booleans(),  # (numeric comparison exists with Secure Connections only: forced below)
            'server': st.sampled_from(['peripheral', 'central']),  # which end is the GATT server (the victim)
            'delays': st.lists(st.sampled_from([0, 0, 2, 9]), max_size=3),
            # virtual seconds after pair() started at which the client probes the protected attributes (the window
            # between "encryption on" and "pairing complete")
            'probe_at': st.lists(st.sampled_from([0.0, 0.001, 0.003, 0.01, 0.03, 0.1]), max_size=3),
            # what happens after the first pairing: come back and encrypt with the stored key / pair again on the
            # new connection (possibly with another method)
            'later': st.lists(st.sampled_from(['reconnect', 'reconnect', 'repair_just_works', 'repair_same']), max_size=3),
        }
    ).map(lambda c: dict(c, sc=True) if c['method'] == 'numeric' else c)


class _PairedDelegate:
    pass


def _paired_delegate(method, side, shared):
    from bumble.pairing import PairingDelegate

    io = {
        'just_works': PairingDelegate.IoCapability.NO_OUTPUT_NO_INPUT,
        'numeric': PairingDelegate.IoCapability.DISPLAY_OUTPUT_AND_YES_NO_INPUT,
        'passkey': (PairingDelegate.IoCapability.KEYBOARD_INPUT_ONLY if side == 'c'
                    else PairingDelegate.IoCapability.DISPLAY_OUTPUT_ONLY),
    }[method]

    class D(PairingDelegate):
        async def compare_numbers(self, number, digits):
            shared['asked'].add('compare')
            return True

        async def get_number(self):
            shared['asked'].add('input')
            return await shared['displayed']

        async def display_number(self, number, digits):
            shared['asked'].add('display')
            if not shared['displayed'].done():
                shared['displayed'].set_result(number)

    return D(io)


def run_paired(ctx, case) -> None:
    from bumble.gatt import Characteristic, Service
    from bumble.keys import MemoryKeyStore
    from bumble.pairing import PairingConfig
    from bumble.device import Peer
    from bumble import att as _att
    from checks.c13_pairing import LtkEmulation, add_encryption_hold

    loop = vloop.new_loop()
    labels = {'paired', f'paired_first:{case["method"]}', 'paired_sc' if case['sc'] else 'paired_legacy',
              f'paired_server_is_{case["server"]}'}
    failures = []

    async def body():
        w = world.World(2, delays=case.get('delays') or None)
        for n in w.nodes:
            add_encryption_hold(n.tap)
        await w.power_on()
        ci, pi = 0, 1
        si = pi if case['server'] == 'peripheral' else ci
        server, client = w[si].device, w[1 - si].device
        P = Characteristic
        chars = {
            'r_authn': Characteristic('A001', P.Properties.READ, P.READABLE | P.READ_REQUIRES_AUTHENTICATION,
                                      PAIRED_SECRETS['r_authn']),
            'r_enc': Characteristic('A002', P.Properties.READ, P.READABLE | P.READ_REQUIRES_ENCRYPTION,
                                    PAIRED_SECRETS['r_enc']),
            'w_authn': Characteristic('A003', P.Properties.READ | P.Properties.WRITE,
                                      P.READABLE | P.WRITEABLE | P.WRITE_REQUIRES_AUTHENTICATION, b'w-authn-0'),
            'w_enc': Characteristic('A004', P.Properties.READ | P.Properties.WRITE,
                                    P.READABLE | P.WRITEABLE | P.WRITE_REQUIRES_ENCRYPTION, b'w-enc-0'),
            'open': Characteristic('A005', P.Properties.READ, P.READABLE, PAIRED_SECRETS['open']),
        }
        server.add_service(Service('A000', list(chars.values())))
        for n in w.nodes:
            n.device.keystore = MemoryKeyStore()
        state = {'method': case['method']}

        def factory_for(side):
            def factory(connection):
                # (identity address = the static random address the devices connect with, so that the bond is found
                # again on the next connection without address resolution)
                return PairingConfig(sc=case['sc'], mitm=state['method'] != 'just_works', bonding=True,
                                     identity_address_type=PairingConfig.AddressType.RANDOM,
                                     delegate=_paired_delegate(state['method'], side, state['shared']))
            return factory

        w[ci].device.pairing_config_factory = factory_for('c')
        w[pi].device.pairing_config_factory = factory_for('p')
        counter = [0]

        async def probe(conn_client, authn_ok, enc_ok, when):
            """Reads/writes every protected attribute from the client end and judges what came back."""
            peer_client = conn_client.gatt_client
            for name in ('r_authn', 'r_enc'):
                try:
                    v = await asyncio.wait_for(peer_client.read_value(chars[name].handle), 40.0)
                except (_att.ATT_Error, asyncio.TimeoutError, TimeoutError, asyncio.CancelledError):
                    v = None
                except Exception:
                    v = None
                allowed = authn_ok if name == 'r_authn' else enc_ok
                if v is not None and allowed:
                    labels.add(f'paired_granted:{name}:{when}')
                if v is not None and bytes(v) == PAIRED_SECRETS[name] and allowed is False:
                    failures.append((f'paired/disclosed/{name}/{when}',
                                     f'{name} value returned to the peer {when}: the link was {state["desc"]}'))
            for name in ('w_authn', 'w_enc'):
                counter[0] += 1
                new = b'by-peer-%d' % counter[0]
                before = bytes(chars[name].value)
                try:
                    await asyncio.wait_for(peer_client.write_value(chars[name].handle, new, with_response=True), 40.0)
                except (_att.ATT_Error, asyncio.TimeoutError, TimeoutError, asyncio.CancelledError):
                    pass
                except Exception:
                    pass
                allowed = authn_ok if name == 'w_authn' else enc_ok
                after = bytes(chars[name].value)
                if after != before and allowed is False:
                    failures.append((f'paired/changed/{name}/{when}',
                                     f'{name} changed by the peer {when}: the link was {state["desc"]}'))

        async def connect():
            cc, cp = await w.connect_le(ci, pi)
            return cc, cp

        async def pair(cc, probes):
            state['shared'] = {'displayed': asyncio.get_running_loop().create_future(), 'asked': set()}
            mitm = state['method'] != 'just_works'
            client_conn = cc if si == pi else cp_holder[0]
            tasks = []
            state['desc'] = ('in the middle of a %s pairing (%s)' % (state['method'], 'SC' if case['sc'] else 'legacy'))

            async def late_probe(delay):
                await asyncio.sleep(delay)
                # during the pairing nothing is known yet: an authenticated requirement may only be met once a
                # MITM-protected pairing has COMPLETED; encryption may come on at any moment (not judged: None)
                await probe(client_conn, False if not mitm else None, None, 'while_pairing')

            for d in probes:
                tasks.append(asyncio.get_running_loop().create_task(late_probe(d)))
            try:
                await asyncio.wait_for(cc.pair(), 60.0)
                ok = True
            except Exception as e:  # noqa: BLE001
                state['pair_error'] = repr(e)
                ok = False
            for t in tasks:
                try:
                    await t
                except Exception:
                    pass
            await world.settle()
            return ok

        cp_holder = [None]
        cc, cp = await connect()
        cp_holder[0] = cp
        client_conn = cc if si == pi else cp
        state['desc'] = 'neither encrypted nor paired'
        await probe(client_conn, False, False, 'before_pairing')
        ok = await pair(cc, case.get('probe_at') or [])
        if not ok:
            labels.add('paired_pairing_failed')
            labels.add('paired_pairing_failed:' + state.get('pair_error', '')[:60])
            return
        if case.get('probe_at'):
            labels.add('paired_probe_while_pairing')
        key_authn = state['method'] != 'just_works'
        state['desc'] = f'encrypted by a completed {state["method"]} pairing'
        await probe(client_conn, key_authn, True, 'after_pairing')
        for step in case.get('later') or []:
            try:
                await asyncio.wait_for(cc.disconnect(), 30.0)
            except Exception:
                pass
            await world.settle()
            cc, cp = await connect()
            cp_holder[0] = cp
            client_conn = cc if si == pi else cp
            state['desc'] = 'a new, not yet encrypted connection of a bonded peer'
            await probe(client_conn, False, False, 'after_reconnect_plain')
            if step == 'reconnect':
                # (the virtual controller starts encryption without asking the peripheral's host for the key; the
                # emulation sends the LE Long Term Key Request a real controller sends, through the peripheral's tap)
                emu = LtkEmulation(w[ci], w[pi], cp.handle)
                try:
                    await asyncio.wait_for(cc.encrypt(), 30.0)
                except Exception:
                    labels.add('paired_encrypt_failed')
                    return
                finally:
                    await world.settle()
                    emu.detach()
                if emu.verdict() is not None:
                    labels.add('paired_encrypt_failed')
                    return
                labels.add('paired_reconnect_encrypt:' + ('authenticated_key' if key_authn else 'unauthenticated_key'))
                state['desc'] = ('encrypted with the stored key of a %s pairing'
                                 % ('MITM-protected' if key_authn else 'Just Works'))
                await probe(client_conn, key_authn, True, 'after_reconnect_encrypted')
            else:
                previous = state['method']
                if step == 'repair_just_works':
                    state['method'] = 'just_works'
                ok = await pair(cc, [])
                if not ok:
                    labels.add('paired_pairing_failed')
                    return
                key_authn = state['method'] != 'just_works'
                labels.add(f'paired_again:{previous}->{state["method"]}')
                state['desc'] = f'encrypted by a completed {state["method"]} pairing (the bond before it was {previous})'
                await probe(client_conn, key_authn, True, 'after_pairing_again')

    try:
        try:
            loop.complete(body(), horizon=1200.0)
        except (vloop.Stalled, vloop.HorizonExceeded, vloop.BudgetExceeded) as e:
            raise HarnessError(f'C11: paired case did not finish ({type(e).__name__}): {case}')
    finally:
        loop.shutdown()
    plain = {k: (list(v) if isinstance(v, (list, tuple)) else v) for k, v in case.items()}
    for sig, what in failures:
        ctx.fail(sig, what, plain)
    ctx.case(['paired', plain], True, labels, sample={'paired': plain})


def downgrade_programs(ctx):
    """Directed histories: an access that the rule GRANTS on a link that meets the requirement, followed by an access
    to the same attribute on the same bearer after the link security went down (what a reconnection, or an
    encryption change, leaves behind) that the rule REFUSES - for every ordered pair of paths of the same
    direction. Anything the server remembers from the granted access (values, decisions) must not open the refused one.
    Enumerated with plain loops; a third of it (rotated by the seed) in the quick tier."""
    masks = {
        'read': (READABLE | R_ENC, READABLE | R_AUTHN, READABLE | WRITEABLE | R_ENC | R_AUTHN),
        'write': (WRITEABLE | W_ENC, WRITEABLE | W_AUTHN, READABLE | WRITEABLE | W_ENC | W_AUTHN),
    }
    i = 0
    for kind in ('char', 'desc'):
        paths = {'read': [q for q in PATHS[kind] if q not in WRITE_PATHS], 'write': list(BASE_WRITE_PATHS)}
        for direction in ('read', 'write'):
            for mask in masks[direction]:
                for bearer in BEARERS:
                    for first in paths[direction]:
                        steps = []
                        for second in paths[direction]:
                            steps.append([kind, mask, 2, first, bearer])   # granted (encrypted + authenticated)
                            low = 1 if mask & (R_AUTHN | W_AUTHN) and not mask & (R_ENC | W_ENC) else 0
                            steps.append([kind, mask, low, second, bearer])  # refused after the downgrade
                        i += 1
                        if (i % 3 != ctx.seed % 3) if ctx.quick else (i % ctx.nshards != ctx.shard):
                            continue
                        yield steps


# ---------------------------------------------------------------------------
def run(ctx) -> None:
    vloop.selftest()
    cells, total = matrix_cells(ctx)
    per_world = ctx.pick(32, 12)
    rounds = ctx.pick(1, 3)  # thorough: the whole matrix again in other worlds, in another order
    leftover = 0
    for r in range(rounds):
        if r:
            cells = cells[r::rounds] + [c for k in range(rounds) if k != r for c in cells[k::rounds]]
        todo = [cells[i:i + per_world] for i in range(0, len(cells), per_world)]
        n = len(todo)

        def one_world(params, todo=todo):
            if todo:
                run_program(ctx, params, todo.pop(0))

        ctx.hyp(f'matrix_worlds/{r}', one_world, world_strategy(), max_examples=n)
        leftover += len(todo)
        while todo:  # Hypothesis gave fewer worlds than chunks: finish the enumeration in the default world
            run_program(ctx, DEFAULT_WORLD, todo.pop(0))
    ctx.extra['sum_matrix_cells_run'] = len(cells) * rounds
    ctx.extra['matrix_cells_total'] = total
    ctx.extra['matrix_rounds'] = rounds
    ctx.extra['sum_matrix_chunks_in_default_world'] = leftover
    if not ctx.quick:
        ctx.extra['exhaustive'] = True
    ctx.extra['bearers'] = 'ATT fixed channel (raw peer) and EATT (enhanced credit based channel from a second Bumble device)'

    ctx.hyp('programs', lambda d: run_program(ctx, d[0], d[1]), program_strategy(), max_examples=ctx.n(500, 48000))

    # further link-security states (family 'states') and further parameter forms / unlisted writes (family 'forms'):
    # enumerated like the matrix, each chunk in a Hypothesis-generated world
    def chunks(name, steps):
        todo = [steps[i:i + per_world] for i in range(0, len(steps), per_world)]

        def one_world(params, todo=todo):
            if todo:
                run_program(ctx, params, todo.pop(0))

        ctx.hyp(name, one_world, world_strategy(), max_examples=len(todo))
        while todo:
            run_program(ctx, DEFAULT_WORLD, todo.pop(0))

    scells, stotal = state_cells(ctx)
    pairs = cross_link_pairs(ctx)
    chunks('state_worlds', scells + pairs)
    ctx.extra['sum_state_cells_run'] = len(scells)
    ctx.extra['state_cells_total'] = stotal
    ctx.extra['sum_cross_link_pairs_run'] = len(pairs)
    fcells, ftotal = form_cells(ctx)
    chunks('form_worlds', fcells)
    ctx.extra['sum_form_cells_run'] = len(fcells)
    ctx.extra['form_cells_total'] = ftotal

    # link security reached by real pairing / by encrypting a later connection with the stored key
    ctx.hyp('paired', lambda c: run_paired(ctx, c), paired_strategy(), max_examples=ctx.n(120, 6400))
    for label in ('paired_reconnect_encrypt:unauthenticated_key', 'paired_reconnect_encrypt:authenticated_key',
                  'paired_probe_while_pairing', 'paired_first:passkey', 'paired_first:numeric', 'paired_legacy',
                  'paired_sc', 'paired_server_is_central', 'paired_again:passkey->just_works',
                  'paired_granted:r_authn:after_pairing', 'paired_granted:r_authn:after_reconnect_encrypted'):
        ctx.floor(label, 2)

    # security-downgrade histories (granted access, then the same attribute on a link that no longer qualifies)
    todo = list(downgrade_programs(ctx))
    ctx.extra['sum_downgrade_programs'] = len(todo)

    def one_downgrade_world(params, todo=todo):
        if todo:
            ctx.label('downgrade_history')
            # two worlds in three have secrets longer than ATT_MTU-1, so that the granted plain reads are long reads
            k = len(todo) % 3
            if k:
                params = dict(params, slen=40, mtu=(23, 30)[k - 1])
            run_program(ctx, params, todo.pop(0))

    ctx.hyp('downgrade_worlds', one_downgrade_world, world_strategy(), max_examples=len(todo))
    while todo:
        ctx.label('downgrade_history')
        run_program(ctx, DEFAULT_WORLD, todo.pop(0))

    for path in ALL_PATHS:
        ctx.floor(f'path:{path}', 20)
    for s in SEC[:3]:
        ctx.floor(f'sec:{s}', 200)
    for s in SEC[3:]:
        ctx.floor(f'sec:{s}', 100)
    ctx.floor('state:authn_flag_unencrypted/refused_only_for_encryption', 20)
    ctx.floor('state:authn_flag_unencrypted/open_authentication_requirement', 20)
    ctx.floor('state:encryption_mode2/granted_with_encryption_requirement', 50)
    ctx.floor('state:cross_link/refused_while_the_other_link_qualifies', 100)
    ctx.floor('state:cross_link/granted_while_the_other_link_does_not_qualify', 50)
    ctx.floor('pair_in_flight_one_refused_one_granted', 10)
    for path in ALL_FORM_PATHS:
        ctx.floor(f'path:{path}', 20)
    ctx.floor('family:forms', 500)
    for f in ('flags', 'comma', 'pipe'):
        ctx.floor(f'pform:{f}', 100)
    for b in BEARERS:
        ctx.floor(f'bearer:{b}', 200)
    for k in MASKED_KINDS:
        ctx.floor(f'kind:{k}', 200)
    for k in DECL_KINDS:
        ctx.floor(f'kind:{k}', 2)
    ctx.floor('model:refused_no_permission_bit', 50)
    ctx.floor('model:refused_requirement', 200)
    ctx.floor('model:granted_with_requirement', 50)
    ctx.floor('model:granted_plain', 5)
    ctx.floor('pair_in_flight', 5)
    ctx.floor('downgrade_history', 20 if ctx.nshards == 1 else 5)  # (about 10 programs per shard in the thorough tier)
    for v in ('static', 'dyn', 'dyn_async', 'v2'):
        ctx.floor(f'vkind:{v}', 5)


def replay(ctx, case) -> None:
    if case.get('kind') == 'paired':
        run_paired(ctx, case)
        return
    if case.get('kind') != 'program':
        raise ValueError(case.get('kind'))
    run_program(ctx, case['world'], case['cells'], confirm=False)
