#!/usr/bin/env python3
"""
Sensitivity run: apply one mutant (string replacement or patch file) to a scratch copy of
/repo, run a check against it, report whether the check raises an alarm, remove the copy.

  tools/sens.py C01 --file bumble/hci.py --old 'X' --new 'Y' [--tests] [--tier quick]
  tools/sens.py C01 --patch /verif/seeded/x/patch.diff [--tests]
"""

import argparse
import os
import shutil
import subprocess
import sys

VERIF = os.path.dirname(os.path.dirname(os.path.abspath(__file__)))


def main():
    ap = argparse.ArgumentParser()
    ap.add_argument('props', help='comma-separated property ids')
    ap.add_argument('--file')
    ap.add_argument('--old')
    ap.add_argument('--new')
    ap.add_argument('--count', type=int, default=1)
    ap.add_argument('--patch')
    ap.add_argument('--tests', action='store_true', help='also run the pinned test suite on the mutant')
    ap.add_argument('--tier', default='quick')
    ap.add_argument('--seed', default='1')
    args = ap.parse_args()

    scratch = f'/var/tmp/bumble-mut-{os.getpid()}'
    subprocess.run(['rsync', '-a', '--exclude', '.git', '--exclude', '__pycache__', '/repo/', scratch + '/'], check=True)
    try:
        if args.patch:
            r = subprocess.run(['patch', '-p1', '-s', '-i', args.patch], cwd=scratch)
            if r.returncode:
                print('PATCH FAILED')
                return 3
        else:
            path = os.path.join(scratch, args.file)
            s = open(path).read()
            if s.count(args.old) < 1:
                print('OLD STRING NOT FOUND')
                return 3
            s = s.replace(args.old, args.new, args.count)
            open(path, 'w').write(s)
        if args.tests:
            r = subprocess.run(
                ['/venv/bin/python', '-m', 'pytest', '-q', '-x', '-p', 'no:cacheprovider', '--timeout=900'],
                cwd=scratch, capture_output=True, text=True,
                env=dict(os.environ, PYTHONPATH=scratch),
            )
            print('tests:', r.stdout.strip().splitlines()[-1] if r.stdout.strip() else r.stderr[-300:])
        rc_all = {}
        for prop in args.props.split(','):
            env = dict(os.environ, VERIF_REPO=scratch, VERIF_SEED=args.seed, VERIF_NO_EVIDENCE='1')
            r = subprocess.run([os.path.join(VERIF, 'check'), prop, '--tier', args.tier], cwd=VERIF, env=env, capture_output=True, text=True)
            rc_all[prop] = r.returncode
            lines = [l for l in r.stdout.splitlines() if l.startswith(('VIOLATION', '  signature', '  what', 'KNOWN'))]
            print(f'{prop}: rc={r.returncode}', 'DETECTED' if r.returncode == 1 else ('HARNESS-ERROR' if r.returncode == 2 else 'MISSED'))
            for l in lines[:9]:
                print('   ', l[:200])
            if r.returncode == 2:
                print(r.stderr[-600:])
        return 0
    finally:
        shutil.rmtree(scratch, ignore_errors=True)


if __name__ == '__main__':
    sys.exit(main())
