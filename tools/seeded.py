#!/usr/bin/env python3
"""
Confirm a seeded breaking change and run checks against it.

  tools/seeded.py import <dir with patch.diff, demo.py, meta.json> --id C04-a [--props C04,C05] [--tier quick]
  tools/seeded.py run <id> [--props ...] [--tier quick|thorough]     # re-run checks on a kept change
  tools/seeded.py table                                             # detection table (markdown)

Everything runs on a scratch copy of /repo under /var/tmp (removed afterwards); /repo itself is
never modified. A change is kept (copied to /verif/seeded/<id>/) only if: the patch applies,
the demonstration passes without it and fails with it, and the pinned test suite still passes.
"""

import argparse
import json
import os
import re
import shutil
import subprocess
import sys
import time

VERIF = os.path.dirname(os.path.dirname(os.path.abspath(__file__)))
SEEDED = os.path.join(VERIF, 'seeded')
PY = '/venv/bin/python'


def sh(cmd, cwd=None, env=None, timeout=3600):
    r = subprocess.run(cmd, cwd=cwd, env=env, capture_output=True, text=True, timeout=timeout)
    return r.returncode, r.stdout, r.stderr


def make_scratch():
    scratch = f'/var/tmp/bumble-seeded-{os.getpid()}'
    shutil.rmtree(scratch, ignore_errors=True)
    subprocess.run(['rsync', '-a', '--exclude', '.git', '--exclude', '__pycache__', '/repo/', scratch + '/'], check=True)
    return scratch


def run_demo(scratch, demo):
    env = dict(os.environ, PYTHONPATH=scratch, PYTHONDONTWRITEBYTECODE='1')
    src = open(demo).read()
    if re.search(r'^(async )?def test_', src, re.M) and '__main__' not in src:
        cmd = [PY, '-m', 'pytest', '-q', '-x', '-p', 'no:cacheprovider', demo]
    else:
        cmd = [PY, demo]
    rc, out, err = sh(cmd, cwd=scratch, env=env, timeout=900)
    return rc, (out + err)[-400:]


def run_suite(scratch):
    env = dict(os.environ, PYTHONPATH=scratch, PYTHONDONTWRITEBYTECODE='1')
    rc, out, err = sh([PY, '-m', 'pytest', '-q', '-p', 'no:cacheprovider', '--timeout=900'], cwd=scratch, env=env)
    last = out.strip().splitlines()[-1] if out.strip() else err[-200:]
    return rc, last


def run_checks(scratch, props, tier, seed='1'):
    results = {}
    for prop in props:
        env = dict(os.environ, VERIF_REPO=scratch, VERIF_SEED=seed, VERIF_NO_EVIDENCE='1')
        t0 = time.time()
        rc, out, err = sh([os.path.join(VERIF, 'check'), prop, '--tier', tier], cwd=VERIF, env=env, timeout=7200)
        sigs = [l.strip()[len('signature: '):] for l in out.splitlines() if l.strip().startswith('signature: ')]
        results[prop] = {
            'rc': rc,
            'verdict': 'DETECTED' if rc == 1 else ('HARNESS-ERROR' if rc == 2 else 'missed'),
            'signatures': sigs[:6],
            'tier': tier,
            'wall_s': round(time.time() - t0, 1),
            'stderr_tail': err[-300:] if rc == 2 else '',
        }
    return results


def cmd_import(args):
    src = args.dir
    patch = os.path.join(src, 'patch.diff')
    demo = os.path.join(src, 'demo.py')
    meta = json.load(open(os.path.join(src, 'meta.json')))
    props = args.props.split(',') if args.props else [meta.get('property', args.id.split('-')[0])]
    scratch = make_scratch()
    try:
        rc0, out0 = run_demo(scratch, demo)
        rc, out, err = sh(['patch', '-p1', '-s', '-i', patch], cwd=scratch)
        if rc:
            print('REJECTED: patch does not apply:', out, err)
            return 1
        rc1, out1 = run_demo(scratch, demo)
        src_rc, suite = run_suite(scratch)
        ok = rc0 == 0 and rc1 != 0 and src_rc == 0
        print(f'demo unmodified rc={rc0}, demo changed rc={rc1}, suite: {suite}')
        if not ok:
            print('REJECTED: not confirmed')
            print(out0[-300:], '\n---\n', out1[-300:])
            return 1
        results = run_checks(scratch, props, args.tier)
    finally:
        shutil.rmtree(scratch, ignore_errors=True)
    dst = os.path.join(SEEDED, args.id)
    os.makedirs(dst, exist_ok=True)
    shutil.copy(patch, os.path.join(dst, 'patch.diff'))
    shutil.copy(demo, os.path.join(dst, 'demo.py'))
    meta.update(
        {
            'id': args.id,
            'confirmed': {
                'demo_unmodified_rc': rc0,
                'demo_changed_rc': rc1,
                'suite_with_change': suite,
                'how': 'tools/seeded.py import: scratch copy of /repo, demo without and with the patch, pinned suite with the patch',
            },
            'checks': results,
        }
    )
    json.dump(meta, open(os.path.join(dst, 'meta.json'), 'w'), indent=1)
    for p, r in results.items():
        print(f'{args.id}: {p} {r["verdict"]} {r["signatures"][:3]}')
    return 0


def cmd_run(args):
    dst = os.path.join(SEEDED, args.id)
    meta = json.load(open(os.path.join(dst, 'meta.json')))
    props = args.props.split(',') if args.props else list(meta.get('checks', {})) or [meta['property']]
    scratch = make_scratch()
    try:
        rc, out, err = sh(['patch', '-p1', '-s', '-i', os.path.join(dst, 'patch.diff')], cwd=scratch)
        if rc:
            print('patch no longer applies', out, err)
            return 1
        results = run_checks(scratch, props, args.tier, args.seed)
    finally:
        shutil.rmtree(scratch, ignore_errors=True)
    meta.setdefault('checks', {}).update(results)
    json.dump(meta, open(os.path.join(dst, 'meta.json'), 'w'), indent=1)
    for p, r in results.items():
        print(f'{args.id}: {p} {r["verdict"]} {r["signatures"][:3]} ({r["wall_s"]}s)')
    return 0


def _reconfirm_one(sid):
    """Does the change still break the property on the CURRENT /repo (later fix: commits may have neutralised it)?"""
    dst = os.path.join(SEEDED, sid)
    scratch = f'/var/tmp/bumble-reconfirm-{sid}'
    shutil.rmtree(scratch, ignore_errors=True)
    subprocess.run(['rsync', '-a', '--exclude', '.git', '--exclude', '__pycache__', '/repo/', scratch + '/'], check=True)
    try:
        demo = os.path.join(dst, 'demo.py')
        rc0, _ = run_demo(scratch, demo)
        rc, out, err = sh(['patch', '-p1', '-s', '-i', os.path.join(dst, 'patch.diff')], cwd=scratch)
        if rc:
            return sid, {'head': HEAD, 'patch_applies': False, 'demo_unmodified_rc': rc0}
        rc1, tail = run_demo(scratch, demo)
        return sid, {'head': HEAD, 'patch_applies': True, 'demo_unmodified_rc': rc0, 'demo_changed_rc': rc1}
    finally:
        shutil.rmtree(scratch, ignore_errors=True)


HEAD = subprocess.run(['git', '-C', '/repo', 'rev-parse', '--short', 'HEAD'], capture_output=True, text=True).stdout.strip()


def cmd_reconfirm(args):
    import multiprocessing

    ids = args.ids or sorted(d for d in os.listdir(SEEDED) if os.path.exists(os.path.join(SEEDED, d, 'meta.json')))
    with multiprocessing.Pool(8) as pool:
        for sid, res in pool.imap_unordered(_reconfirm_one, ids):
            mp = os.path.join(SEEDED, sid, 'meta.json')
            meta = json.load(open(mp))
            meta['reconfirmed'] = res
            json.dump(meta, open(mp, 'w'), indent=1)
            state = ('patch no longer applies' if not res['patch_applies'] else
                     'still breaks the property' if res['demo_changed_rc'] and not res['demo_unmodified_rc'] else
                     'NEUTRALISED (demo passes with the change)' if not res['demo_changed_rc'] else 'demo fails without the change')
            print(sid, state, res)
    return 0


def cmd_table(_args):
    print('| id | property | change | needs | detected by |')
    print('|---|---|---|---|---|')
    for d in sorted(os.listdir(SEEDED)):
        mp = os.path.join(SEEDED, d, 'meta.json')
        if not os.path.exists(mp):
            continue
        m = json.load(open(mp))
        det = '; '.join(
            f"{p} {r['tier']}: {r['verdict']}" + (f" ({r['signatures'][0]})" if r['signatures'] else '')
            for p, r in m.get('checks', {}).items()
        )
        rc = m.get('reconfirmed') or {}
        if rc and (not rc.get('patch_applies') or not rc.get('demo_changed_rc')):
            det += f" - retired: on /repo {rc.get('head')} " + ('the patch no longer applies' if not rc.get('patch_applies') else
                                                            'the change no longer breaks the property (its own demo passes with it; a later fix: commit neutralised it)')
        if m.get('note'):
            det += ' - ' + m['note']
        print(f"| {d} | {m.get('property')} | {m.get('title', '')[:70]} | {str(m.get('needs', ''))[:90]} | {det} |")
    return 0


def main():
    ap = argparse.ArgumentParser()
    sub = ap.add_subparsers(dest='cmd', required=True)
    a = sub.add_parser('import')
    a.add_argument('dir')
    a.add_argument('--id', required=True)
    a.add_argument('--props')
    a.add_argument('--tier', default='quick')
    b = sub.add_parser('run')
    b.add_argument('id')
    b.add_argument('--props')
    b.add_argument('--tier', default='quick')
    b.add_argument('--seed', default='1')
    sub.add_parser('table')
    c = sub.add_parser('reconfirm')
    c.add_argument('ids', nargs='*')
    args = ap.parse_args()
    return {'import': cmd_import, 'run': cmd_run, 'table': cmd_table, 'reconfirm': cmd_reconfirm}[args.cmd](args)


if __name__ == '__main__':
    sys.exit(main())
