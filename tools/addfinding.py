#!/usr/bin/env python3
"""Appends one entry to known_findings.json (by hand, never at check run time).

  tools/addfinding.py fixed <prop> <commit> <signature> <replay> <what>
  tools/addfinding.py known <prop> <signature> <replay> <what> <why_not_fixed>
"""
import json, os, sys
V = os.path.dirname(os.path.dirname(os.path.abspath(__file__)))
P = os.path.join(V, 'known_findings.json')
d = json.load(open(P))
a = sys.argv[1:]
if a[0] == 'fixed':
    _, prop, commit, sig, replay, what = a
    e = {'status': 'fixed', 'property': prop, 'commit': commit, 'signature': sig,
         'line': f'fixed: property={prop} {commit} {what}', 'what': what, 'replay': replay}
else:
    _, prop, sig, replay, what, why = a
    e = {'status': 'known', 'property': prop, 'signature': sig,
         'what': what, 'replay': replay, 'why_not_fixed': why}
if e.get('replay') and not os.path.exists(os.path.join(V, e['replay'])):
    sys.exit(f"replay {e['replay']} does not exist")
for f in d['findings']:
    if f['property'] == e['property'] and f['signature'] == e['signature']:
        sys.exit('already listed')
d['findings'].append(e)
json.dump(d, open(P, 'w'), indent=1)
open(P, 'a').write('\n')
print('added', e['status'], e['property'], e['signature'])
