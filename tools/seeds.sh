#!/bin/sh
# tools/seeds.sh Cxx [seeds...] : quick tier at several VERIF_SEED values, fresh process each; prints one line per seed
P=$1; shift
[ $# -eq 0 ] && set -- 1 2 3 4 5
mkdir -p out/logs
for s in "$@"; do
  VERIF_SEED=$s ./check $P --tier quick > out/logs/$P.seed$s.log 2>&1
  echo "$P seed=$s exit=$? $(grep -c VIOLATION out/logs/$P.seed$s.log) violations; $(tail -1 out/logs/$P.seed$s.log | cut -c1-160)"
done
