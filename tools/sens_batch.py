#!/usr/bin/env python3
"""Runs a JSON list of mutants (tools/mutants/*.json) through tools/sens.py, one after the other; prints a table.
usage: tools/sens_batch.py tools/mutants/x.json [id-prefix]"""
import json, os, subprocess, sys
V = os.path.dirname(os.path.dirname(os.path.abspath(__file__)))
muts = json.load(open(sys.argv[1]))
pref = sys.argv[2] if len(sys.argv) > 2 else ''
for m in muts:
    if not m['id'].startswith(pref):
        continue
    if m.get('retired'):
        print(f"{m['id']}: retired - {m['retired']}", flush=True)
        continue
    cmd = [os.path.join(V, 'tools', 'sens.py'), m['props'], '--file', m['file'], '--old', m['old'], '--new', m['new'],
           '--count', str(m.get('count', 1))]
    if m.get('tests'):
        cmd.append('--tests')
    r = subprocess.run(cmd, capture_output=True, text=True)
    out = r.stdout.strip().splitlines()
    verdict = [l for l in out if 'rc=' in l or 'NOT FOUND' in l or 'tests:' in l]
    sigs = [l.strip() for l in out if 'signature' in l][:3]
    print(f"{m['id']}: {' | '.join(verdict)} {sigs} :: {m['why']}", flush=True)
