#!/usr/bin/env python3
"""Regenerates /verif/MANIFEST.json from the table below (keeps it schema-valid)."""

import json
import os
import subprocess
import sys

VERIF = os.path.dirname(os.path.dirname(os.path.abspath(__file__)))

# property id -> (technique, level category, level text, level note, design ref)
CHECKS = {
    'C04': (
        'model-based histories (Hypothesis-generated operation lists) vs harness credit/FIFO ledger',
        'exploration',
        'Generated enqueue/complete/over-report/unknown-handle/flush/drain histories on the real '
        'DataPacketQueue, the same through Host.send_l2cap_pdu with Number_Of_Completed_Packets and '
        'Disconnection_Complete events, and write/pause/resume/sink-progress histories on '
        'FlowControlAsyncPipe; invariants (credit bound, per-connection order, exactly-once, no-stall, '
        'drain release) are checked after every step. Sampling of histories, not exhaustive.',
        'Trusted: the 40-line ledger in checks/c04_flow_control.py; completions are clamped per connection.',
        'DESIGN.md 3/C04',
    ),
}

NOT_YET = 'check not built yet in this session (planned in DESIGN.md section 3)'


def main():
    with open(os.path.join(VERIF, 'properties.jsonl')) as f:
        props = [json.loads(line)['id'] for line in f if line.strip()]
    fix_commits = subprocess.run(
        ['git', '-C', '/repo', 'log', '--format=%h %s', '--grep=^hook:'],
        capture_output=True, text=True,
    ).stdout.strip().splitlines()
    checks = []
    for pid in props:
        if pid not in CHECKS:
            continue
        technique, cat, text, note, ref = CHECKS[pid]
        checks.append(
            {
                'property_id': pid,
                'quick_cmd': f'./check {pid} --tier quick',
                'thorough_cmd': f'./check {pid} --tier thorough',
                'evidence_file': f'/verif/evidence/{pid}.json',
                'replay_cmd_template': f'./check {pid} --replay {{path}}',
                'engine': 'vlib',
                'level_claimed': {'category': cat, 'text': text, 'design_ref': ref},
                'level_note': note,
                'technique': technique,
            }
        )
    manifest = {
        'version': 1,
        'setup_cmd': 'sh ./setup.sh',
        'hooks': {
            'guard': 'BUMBLE_VERIF',
            'enable': 'no source hooks: checks import bumble from /repo working tree '
            '(./check sets BUMBLE_VERIF=1, PYTHONPATH=/repo); observation is through constructor-injected '
            'sinks/links, event listeners and mock.patch inside the harness process only',
            'baseline_off_cmd': 'cd /repo && /venv/bin/python -m pytest -ra -q -p no:cacheprovider --timeout=900 '
            '--continue-on-collection-errors',
            'source_commits': [c.split()[0] for c in fix_commits],
            'add_only': True,
        },
        'engines': [
            {
                'name': 'vlib',
                'path': '/verif/vlib',
                'serves_properties': [c['property_id'] for c in checks],
                'kind_free_text': 'Hypothesis-driven generators (seeded from VERIF_SEED), virtual-time asyncio '
                'loop with stall detection, collect-then-shrink failure buckets with ddmin over plain-data '
                'cases, replay files, known-findings matching, schema-validated evidence',
            }
        ],
        'checks': checks,
        'notes': 'Exit 0 = held on everything explored (KNOWN-FINDING lines possible), 1 = VIOLATION line(s), '
        '2 = harness error. Genuine defects found and repaired are listed in known_findings.json as fixed.',
        'not_applicable': [
            {'property_id': pid, 'reason': NOT_YET} for pid in props if pid not in CHECKS
        ],
    }
    path = os.path.join(VERIF, 'MANIFEST.json')
    with open(path, 'w') as f:
        json.dump(manifest, f, indent=1)
        f.write('\n')
    try:
        sys.path.insert(0, os.path.join(VERIF, '.deps'))
        import jsonschema

        with open('/root/.vp/MANIFEST.schema.json') as f:
            jsonschema.validate(manifest, json.load(f))
        print('MANIFEST.json valid;', len(checks), 'checks')
    except ImportError:
        print('MANIFEST.json written (jsonschema not importable, not validated)')


if __name__ == '__main__':
    main()
