#!/usr/bin/env python3
"""Regenerates /verif/MANIFEST.json from the table below (keeps it schema-valid)."""

import json
import os
import subprocess
import sys

VERIF = os.path.dirname(os.path.dirname(os.path.abspath(__file__)))

# property id -> (technique, level category, level text, level note, design ref)
CHECKS = {
    'C04': (
        'model-based histories (Hypothesis-generated operation lists) vs harness credit/FIFO ledger',
        'exploration',
        'Generated enqueue/complete/over-report/unknown-handle/flush/drain histories on the real '
        'DataPacketQueue, the same through Host.send_l2cap_pdu with Number_Of_Completed_Packets and '
        'Disconnection_Complete events, and write/pause/resume/sink-progress histories on '
        'FlowControlAsyncPipe; invariants (credit bound, per-connection order, exactly-once, no-stall, '
        'drain release) are checked after every step. Sampling of histories, not exhaustive.',
        'Trusted: the 40-line ledger in checks/c04_flow_control.py; completions are clamped per connection.',
        'DESIGN.md 3/C04',
    ),
    'C01': (
        'round-trip + independent wire model over the run-time class registry (Hypothesis field values)',
        'exploration',
        'Every class registered in the HCI command/event/LE sub-event registries, every sync command\'s '
        'return-parameter class (inside Command Complete, success and error status), ACL/SCO/ISO data packets, '
        'vendor events and unregistered codes: fields->bytes must equal a harness-side reference encoding, '
        'bytes->fields must equal the generated values, and a fresh object rebuilt from the parsed fields must '
        're-serialise to the same bytes (cache defeated). Registry enumerated, values sampled with boundary bias.',
        'Trusted: vlib/specgen.py reference encoder (int.to_bytes based) and its classification of field specs; '
        'opaque parser/serializer pairs are only checked for consistency.',
        'DESIGN.md 3/C01',
    ),
    'C03': (
        'history invariant over the tapped HCI stream; generated command programs x callers x delays x link situations',
        'exploration',
        'Programs of command packets from every registered class (arbitrary field values, situational handles and '
        'addresses), unregistered opcodes and procedure commands, issued by 1..6 concurrent Host.send_command callers '
        'through an order-preserving delaying tap to the real virtual controller, with no peer / advertising peer / '
        'connected peer / peer leaving the link. Invariants: <=1 command outstanding, exactly one Command '
        'Complete/Status with the right opcode per command, each caller gets its own response, nobody pending at '
        'quiescence, every procedure accepted as pending is concluded by its completion event within the horizon. '
        'Every registered class is also sent alone (registry enumerated).',
        'Trusted: the harness table command->completion event; "eventually" = within 400 virtual seconds and no stall; '
        'LE connection creation towards a silent peer is concluded by an explicit cancel.',
        'DESIGN.md 3/C03',
    ),
    'C02': (
        'differential framing: generated packet list as reference, exhaustive split points for short streams',
        'exploration',
        'Packet sequences of every HCI type (zero/max lengths) cut at every single and double split point '
        '(short streams, enumerated) and at generated cut lists, through PacketParser, PacketReader, '
        'AsyncPacketReader, the USB splitters and the tcp/unix/ws server transports driven through their '
        'protocol objects (client hand-over at every byte position); per-chunk none-early/none-late, bad type '
        'byte recovery, all framers agree with the reference list.',
        'Trusted: the harness packet generator/header table; real sockets and libusb threads are not driven.',
        'DESIGN.md 3/C02',
    ),
    'C06': (
        'model-based histories over a multi-device world; routing model + table agreement + byte-exact scan reports',
        'exploration',
        'Generated histories (connect with public/random own addresses on either end, legacy/extended advertising, '
        'overlapping incoming/outgoing connects, BR/EDR connects, payloads on a test fixed channel, disconnects by '
        'either side, active/passive scans incl. a scanner that advertises itself) over 2..4 real Devices on one '
        'LocalLink with generated HCI delays and link iteration order. After every operation: caller got the '
        'connection it asked for, the peer reports the matching address, no bystander event, handles live and '
        'distinct, each payload arrives exactly once at the right peer and nowhere else, disconnection reported to '
        'both ends and removed from device/host/controller tables, advertising reports byte-exact.',
        'Trusted: the routing model in the check; no RF loss in the virtual link; scans use the legacy scan commands '
        '(the virtual controller implements no extended scan commands).',
        'DESIGN.md 3/C06',
    ),
    'C14': (
        'differential (two back ends) + specification vectors + algebraic relations',
        'exploration',
        'AES-128 e, AES-CMAC (every length 0..80 and 255/256/257/1024), c1 s1 f4 f5 f6 g2 h6 h7 ah, P-256 public '
        'key derivation and ECDH on generated inputs through the library back end and through a second load of '
        'bumble.crypto forced onto the built-in back end; published vectors on both; ECDH symmetry across back '
        'ends; 13 kinds of off-curve keys must be rejected by both; RPA generate/resolve under own and unrelated IRK.',
        'Trusted: the published test vectors transcribed in the check; 256-bit domains are sampled.',
        'DESIGN.md 3/C14',
    ),
    'C15': (
        'model-based histories + exhaustive crash-point enumeration per mutating operation',
        'fault_enumeration',
        'Generated histories of update/delete/delete_all/get/get_all/get_resolving_keys/reopen over 1..3 namespaces '
        '(explicit and default) sharing one file and 1..4 peers, every PairingKeys field combination; after every '
        'operation fresh instances of every namespace must equal the merge-semantics dict model and other '
        'namespaces\' raw JSON must be unchanged. For every mutating operation every file-system step (mkdir, open, '
        'each write/flush/close, replace) is a crash point and ALL are tried: the main file must equal the pre- or '
        'post-state bytes, parse, read back the matching model, and the retried operation must succeed.',
        'Trusted: the mock.patch wrappers around the file-system calls bumble.keys makes (a crash = BaseException '
        'at step k, only a generated prefix of buffered data reaches the temp file); histories are sampled, crash '
        'points per operation are exhaustive.',
        'DESIGN.md 3/C15',
    ),
    'C13': (
        'exhaustive association-model table vs own transcription of Core Table 2.8 + generated end-to-end pairings with emulated LTK request',
        'exploration',
        'Part 1 enumerates all 3600 cells (5x5 IO x SC x MITM x OOB per side) through real initiator/responder '
        'smp.Session objects and compares method and display/input roles with the harness transcription of the '
        'Core tables (exhaustive). Part 2 runs generated pairings between two real Devices (IO, SC, MITM, bonding, '
        'key-distribution masks, who starts, user answers right/wrong/none, one corrupted SMP PDU, HCI delays, '
        'reconnection in same and swapped roles) with a per-case DRBG: both sides end the same way and nothing hangs, '
        'the key in the central\'s LE Enable Encryption equals what the peripheral returns for the emulated LE Long '
        'Term Key Request (while pairing and on reconnection), authenticated flags iff a MITM model ran, failures '
        'leave the key stores byte-identical, key distribution = intersection.',
        'Trusted: the harness transcription of Vol 3 Part H Tables 2.6-2.8; the LTK-request emulation (the virtual '
        'controller never asks the peripheral host for the key); LE only (no CTKD).',
        'DESIGN.md 3/C13',
    ),
    'C18': (
        'round-trip with cache-defeating rebuild over run-time registries + hand-written reference encoders + parse/construct histories',
        'exploration',
        'Every class of the L2CAP/ATT/SMP/SDP/AVDTP/AVRCP/AVC registries and the typed advertising-data classes '
        '(enumerated at run time; exit 2 if one is not covered) plus ERTM control fields, PSM, SDP data elements, '
        'RFCOMM frames/MCC, service capabilities, AVCTP, RTP, AdvertisingData, Address, UUID: value->bytes->parse gives '
        'an equal value, parsed spec-conformant bytes re-serialise identically from a fresh rebuilt object, at every '
        'length-encoding boundary; operation histories over the process-wide UUID registry. A deviation from the '
        'harness reference layout is a violation only when Bumble is not self-consistent (otherwise recorded as a note).',
        'Trusted: the harness reference encoders/decoders and 54 golden vectors written from the specifications.',
        'DESIGN.md 3/C18',
    ),
    'C08': (
        'generated spec pairs x SDU programs on real channels; SDU-list equality + harness-decoded ERTM wire monitor; set-up grid enumerated',
        'exploration',
        'Two real devices (BR/EDR and LE carriers) open a classic channel with independently generated specs (mode, MTU, '
        'MPS down to 23, TxWindow 1..63, FCS, retransmission timers) and run generated write programs in both directions '
        '(unsegmented, k x MPS +-1, >64 segments so TxSeq wraps, echo from the sink, writes right after create) under '
        'order-preserving HCI delays, including round trips longer than the retransmission timeout. Oracle: SDU list at '
        'each sink equals the list written; from the ACL stream the harness decodes configuration options and enhanced '
        'control fields itself and checks TxSeq continuity mod 64, unacked <= peer TxWindow, ReqSeq never acknowledges '
        'unsent frames, SAR well-formed, payload <= peer MPS, CRC-16 FCS; set-up ends both OPEN in one mode or both '
        'CLOSED (220/508-case grid enumerated), no hang or livelock.',
        'Trusted: the harness control-field/option decoders and CRC-16 (self-tested on the Core-spec vectors); no frame '
        'loss is injected (the property quantifies over delays only).',
        'DESIGN.md 3/C08',
    ),
    'C09': (
        'model-based operation histories (open/refuse/close/abort/drain/cut/reconnect) over several links; table and waiter invariants at quiescence',
        'exploration',
        'Histories over one central and 1..3 peripherals (LE, LE carrying classic channels, BR/EDR) with servers on 1..3 '
        'PSMs per kind, every operation started as a task with a generated wait so cuts land inside pending '
        'opens/closes/drains and operations overlap on different links; plus a RawPeer variant that does credit-based '
        'signalling by hand with its own CIDs and re-uses them. At every quiescence: channels/le_coc_channels hold exactly '
        'the open channels under the right keys, nothing for closed channels or dead links, pending tables empty, CIDs '
        'unique per connection, an open to a served PSM on a live link succeeds whatever happened before (here or on '
        'another link), every started connect/disconnect/drain task is done.',
        'Trusted: the hybrid model (reported-open channel objects + history model) in the check; abort() is treated as a '
        'one-sided teardown.',
        'DESIGN.md 3/C09',
    ),
    'C16': (
        'fault enumeration over message boundaries: every procedure x every boundary k x 4 cut kinds, plus sampled delays',
        'exploration',
        'A catalogue of procedures that await the peer (37 after the extension round: GATT read/write/discover/subscribe/indicate, pairing, LE CoC '
        'and classic channel connect/disconnect/drain, EATT, ACL disconnect, remote features/name, SDP, RFCOMM, AVDTP, '
        'plain HCI command, ...) is run un-faulted to count the messages M crossing the HCI taps; then for every k in 0..M and '
        'each of local disconnect / remote disconnect / link loss / transport loss the run is repeated on a fresh world '
        'with the cut injected after message k (every boundary enumerated in the thorough tier, a stratified subset for '
        'the longest procedures in the quick tier, plus Hypothesis-sampled delay vectors). After quiescence: the awaitable is done, no task left pending, host/device/controller tables agree '
        'and no longer list the connection, GATT/SMP/L2CAP/ACL-queue state for it is gone, the bystander connection '
        'still works, and a new connection runs the same procedure successfully.',
        'Trusted: "every operation" = the catalogue listed in the evidence; hang = still pending at stall or 400 virtual '
        'seconds (beyond every Bumble timeout).',
        'DESIGN.md 3/C16',
    ),
    'C19': (
        'reference record-matching model for SDP (concurrent clients, continuation) + byte-exact fragmentation/reassembly with fault sequences + AVDTP state-diagram model',
        'exploration',
        'SDP: 1..3 real clients on different peers connected at the same time query a real server over generated record '
        'sets (sizes around multiples of the per-response capacity, up to the client continuation limit) and MTUs; '
        'results must equal the harness model (a record matches iff EVERY pattern UUID occurs in it, recursively; '
        'attributes in id order; each client its own answer). AVDTP: send_message over a stub channel must emit PDUs <= '
        'MTU with a correct single|start,continue*,end sequence and exact packet count, and MessageAssembler must deliver '
        'byte-identical messages exactly once; after dropped/duplicated/mis-labelled/stray fragments only the affected '
        'message may be lost. AVCTP: a harness sender following the specification layout (PID in the start packet only). '
        'Stream: operation lists (configure/open/start/suspend/close/abort, legal and illegal, API and raw commands) '
        'against the AVDTP state diagram: source state == sink state == model, illegal operations refused.',
        'Trusted: the harness record-matching model, fragment generator and state-diagram model; SDP over the BR/EDR '
        'carrier only; answers above the 64-response continuation limit are outside the domain.',
        'DESIGN.md 3/C19',
    ),
    'C20': (
        'stream equality + harness RFCOMM wire monitor (own frame decoder/FCS, credit ledger) + HFP negotiated-view comparison + AT final-result-code monitor',
        'exploration',
        'RFCOMM between two real devices (BR/EDR and LE carriers) with generated L2CAP MTUs, max_frame_size 23..32767 and '
        'initial credits 1..7 per side, 1..4 DLCs, write programs in both directions (k x frame size +-1, long runs so the '
        'credit ledger wraps), close by either/both sides, reopen, refused open, multiplexer teardown, HCI delays: exact '
        'byte streams per DLC, no interference, frames <= receiver N1 and L2CAP MTU, sender credit ledger never negative '
        'and equal to DLC.tx_credits, drain completes, both ends in matching states. HFP: covering array + sampled subsets '
        'of the 26 HF/AG feature flags, indicator/codec/call-hold lists; initiate_slc completes and both sides hold the '
        'same features, indicator table, HF indicators, codecs, call-hold set; every AT command the AG receives (HF API '
        'commands and 246 enumerated raw form/arity variants) gets exactly one final result code, last.',
        'Trusted: the harness RFCOMM decoder/FCS and AT monitor; payload limit = the maximum frame size the receiver '
        'advertised in its PN; an AG with no AG indicators may refuse the SLC cleanly.',
        'DESIGN.md 3/C20',
    ),
    'C05': (
        'byte-exact delivery comparison + harness fragment checker on the tapped HCI stream; generated buffer geometries x PDU/SDU length sequences x malformed fragment scripts',
        'exploration',
        'Worlds of 2..3 real devices (LE, BR/EDR) with generated controller ACL data length (5..65535) and packet count on '
        'every node and order-preserving HCI delays: generated sequences of Host.send_l2cap_pdu in both directions with '
        'payload lengths biased to k*F-4+-1, 0..3 and 65531..65535; the receiver\'s l2cap_pdu events must equal what was '
        'sent (byte-identical, once, in order) and every host->controller fragment must fit the advertised length and carry '
        'the right PB flag. ISO: a real CIS, generated ISO buffer geometry and SDU lengths 1..4095, every ISO fragment '
        'checked for size, PB flag, SDU length and sequence number (16-bit wrap reached). Malformed scripts (continuation '
        'without start, start without end, data beyond the announced length, start shorter than the header) between '
        'well-formed PDUs through a RawPeer, the bare assembler and a bare Host: exactly the well-formed PDUs arrive.',
        'Trusted: the harness frame/fragment model; the virtual controller does not consume ISO data (the harness returns '
        'ISO credits); ACL/ISO data lengths below 5 are not generated.',
        'DESIGN.md 3/C05',
    ),
    'C07': (
        'byte-stream equality per channel and direction + harness credit ledger rebuilt from the tapped L2CAP PDUs; generated spec pairs, CID plans and write/credit scripts',
        'exploration',
        'A: two real devices over LE with independently generated LeCreditBasedChannelSpec (MTU 23..65535, MPS 23..65533, '
        'credits 1..65535), LE CoC (1..3 channels) or enhanced credit based (1..5 channels at once), generated '
        'write/drain/sleep sequences with sizes around k*MPS and MTU of the receiver. B: one device against a RawPeer that '
        'does the credit based signalling by hand with its own CIDs (same / reversed / crossing / scattered), MTU/MPS, '
        'credit-return policy and credits granted right after the response, as initiator and as acceptor. Oracle: '
        'concatenated sink deliveries == concatenated writes per channel and direction, K-frames <= peer MPS and SDU <= '
        'peer MTU, never a K-frame without a credit (ledger from the signalling and credit PDUs the host saw), credits '
        'returned so the sender is never starved, drain() completes, nothing stalls.',
        'Trusted: the harness signalling parser and credit ledger; the raw peer is a conforming peer; SDU boundaries are '
        'free (byte stream), write(b"") is outside the domain.',
        'DESIGN.md 3/C07',
    ),
    'C10': (
        'history invariant over the recorded bearer traffic; every opcode 0x00..0xFF swept x generated databases, MTUs and operation sequences, raw ATT client on the fixed and on enhanced bearers',
        'exploration',
        'A real Device with a generated GATT database (any property/permission mask, static and dynamic values 0..512 bytes '
        'whose callbacks return or raise, sync or async, 16/128-bit UUIDs) and server MTU 23..517; a RawPeer on CID 4 or a '
        'second device on 1..2 EATT channels sends hand-made ATT PDUs of every opcode (defined classes with adversarial '
        'field values, truncated/padded variants, undefined opcodes) interleaved with notify/indicate calls and a '
        'confirmation policy (on time, late, never, twice). Oracle over the recorded history: exactly one PDU per request '
        '(matching response or Error Response naming it), nothing for commands/confirmations/non-requests, every '
        'server-originated PDU <= the bearer ATT_MTU read from the wire, at most one indication awaiting confirmation per '
        'bearer. The sweep enumerates all 256 opcodes on 3 fixed databases.',
        'Trusted: the harness opcode tables (Core Vol 3 Part F 3.4.8) and the quiescence rule (35 virtual seconds of '
        'silence, beyond the 30 s ATT timeout).',
        'DESIGN.md 3/C10',
    ),
    'C11': (
        'exhaustive permission matrix (256 masks x 3 security states x access paths x 2 bearers) against a rule model from the property text, in Hypothesis-generated database worlds',
        'exploration',
        'Target attribute (characteristic value, descriptor, service-typed group attribute) with every one of the 256 '
        'permission masks x link plain/encrypted/authenticated x every reading/writing ATT operation and parameter form '
        '(read, blob at offset 0 and k, read by type first/second, read by group type, read multiple (variable) alone/with, '
        'find by type value equal/unequal, write request, write command) x fixed channel from a RawPeer / EATT from a '
        'second device, plus the built-in declarations; the matrix is exhaustive in the thorough tier (run three times in '
        'different generated worlds), a stratified third in the quick tier; plus generated programs of cells incl. two '
        'requests in flight. Oracle: no disclosure (secret or any 4-byte substring in any PDU), no change, refused access '
        'answered with an applicable error code, no over-blocking.',
        'Trusted: the rule model; "readable/writable" accepts both readings when a requirement bit is set without the '
        'plain bit (six shipped profiles rely on the lenient one); reads of attributes with no read bit at all are a '
        'recorded known finding and excluded by construction (counted).',
        'DESIGN.md 3/C11',
    ),
    'C12': (
        'reference-tree comparison (harness walk over the attribute list) + wire sniffing of server-initiated PDUs + adversarial response scripts with structural non-termination detection',
        'exploration',
        'A: one real GATT server and 1..3 real client devices (0..2 EATT bearers each) over generated databases (1..6 '
        'services, include edges, 0..5 characteristics, descriptors, 16/32/128-bit UUIDs mixed in a range, value lengths '
        'around k*(MTU-1), MTU-3, 0, 512) and MTU preferences 23..517: discover_services/service/included/'
        'characteristics/descriptors/attributes must reconstruct exactly the harness reference tree with handle ranges, '
        'reads return the exact current value (long reads), writes take effect; generated subscription sets and '
        'notify/indicate calls: exactly the subscribed bearers get exactly the requested PDU kind truncated to ATT_MTU-3, an '
        'indication waits for its confirmation. B: a real client against a RawPeer playing an adversarial ATT server from '
        'a generated response script: every discovery procedure returns or raises.',
        'Trusted: the harness tree walk and ATT sniffer; non-termination = the same request re-issued after the same '
        'answer, more requests than handles, or a stalled/expired virtual loop.',
        'DESIGN.md 3/C12',
    ),
    'C17': (
        'structure-aware mutation fuzzing (Hypothesis; atheris coverage-guided in the thorough tier) with an interpreter-event budget and a reference request per protocol as oracle',
        'exploration',
        'World level: a real victim Device (GATT server, SMP, LE signalling, LE CoC server; or SDP server, RFCOMM+HFP AG/HF, '
        'AVDTP sink, AVRCP) receives sequences of 1..20 frames per target channel (ATT, SMP, LE/classic signalling, SDP, '
        'RFCOMM, AT stream both roles, AVDTP, AVCTP, LE CoC, unknown CIDs) and raw HCI event/ACL/ISO packets: valid PDUs '
        'built from the registries or captured from set-up traffic with 1..4 mutations (truncate, extend, bit flip, length '
        'lies, SDP nesting to 1500, PB-flag permutations, AT lines split/unterminated/over-long/invalid UTF-8) or random '
        'bytes. Each frame must be processed within 5 M interpreter events (sys.monitoring; >= 50x the dearest valid frame), '
        'no RecursionError/MemoryError; afterwards a well-formed reference request per protocol must be answered correctly '
        'unless a valid disconnect was sent. Parser level: 15 byte-level parsers/assemblers/AT readers, fresh objects per '
        'input, same budget; atheris campaigns per parser in the thorough tier.',
        'Trusted: the classification of "valid disconnect"; the event budget as the meaning of "promptly"; ordinary '
        'exceptions are counted, never failures.',
        'DESIGN.md 3/C17',
    ),
}

NOT_YET = 'check not built yet in this session (planned in DESIGN.md section 3)'


try:
    with open(os.path.join(VERIF, 'tools', 'ext_summary.json')) as _f:
        EXTENSIONS = json.load(_f)
except OSError:
    EXTENSIONS = {}


def main():
    with open(os.path.join(VERIF, 'properties.jsonl')) as f:
        props = [json.loads(line)['id'] for line in f if line.strip()]
    fix_commits = subprocess.run(
        ['git', '-C', '/repo', 'log', '--format=%h %s', '--grep=^hook:'],
        capture_output=True, text=True,
    ).stdout.strip().splitlines()
    checks = []
    for pid in props:
        if pid not in CHECKS:
            continue
        technique, cat, text, note, ref = CHECKS[pid]
        if pid in EXTENSIONS:
            if EXTENSIONS[pid].get('added'):
                text += ' Extension round (DESIGN.md 7.6): ' + EXTENSIONS[pid]['added'].replace('`', '') + '.'
            if EXTENSIONS[pid].get('round3'):
                text += ' After the third seeding round (DESIGN.md 7.5): ' + EXTENSIONS[pid]['round3'] + '.'
            ref += ', 7.5, 7.6'
        checks.append(
            {
                'property_id': pid,
                'quick_cmd': f'./check {pid} --tier quick',
                'thorough_cmd': f'./check {pid} --tier thorough',
                'evidence_file': f'/verif/evidence/{pid}.json',
                'replay_cmd_template': f'./check {pid} --replay {{path}}',
                'engine': 'vlib',
                'level_claimed': {'category': cat, 'text': text, 'design_ref': ref},
                'level_note': note,
                'technique': technique,
            }
        )
    manifest = {
        'version': 1,
        'setup_cmd': 'sh ./setup.sh',
        'hooks': {
            'guard': 'BUMBLE_VERIF',
            'enable': 'no source hooks: checks import bumble from /repo working tree '
            '(./check sets BUMBLE_VERIF=1, PYTHONPATH=/repo); observation is through constructor-injected '
            'sinks/links, event listeners and mock.patch inside the harness process only',
            'baseline_off_cmd': 'cd /repo && /venv/bin/python -m pytest -ra -q -p no:cacheprovider --timeout=900 '
            '--continue-on-collection-errors',
            'source_commits': [c.split()[0] for c in fix_commits],
            'add_only': True,
        },
        'engines': [
            {
                'name': 'vlib',
                'path': '/verif/vlib',
                'serves_properties': [c['property_id'] for c in checks],
                'kind_free_text': 'Hypothesis-driven generators (seeded from VERIF_SEED), virtual-time asyncio '
                'loop with stall detection, collect-then-shrink failure buckets with ddmin over plain-data '
                'cases, replay files, known-findings matching, schema-validated evidence',
            }
        ],
        'checks': checks,
        'notes': 'Exit 0 = held on everything explored (KNOWN-FINDING lines possible), 1 = VIOLATION line(s), '
        '2 = harness error. Genuine defects found and repaired are listed in known_findings.json as fixed.',
        'not_applicable': [
            {'property_id': pid, 'reason': NOT_YET} for pid in props if pid not in CHECKS
        ],
    }
    path = os.path.join(VERIF, 'MANIFEST.json')
    with open(path, 'w') as f:
        json.dump(manifest, f, indent=1)
        f.write('\n')
    try:
        sys.path.insert(0, os.path.join(VERIF, '.deps'))
        import jsonschema

        with open('/root/.vp/MANIFEST.schema.json') as f:
            jsonschema.validate(manifest, json.load(f))
        print('MANIFEST.json valid;', len(checks), 'checks')
    except ImportError:
        print('MANIFEST.json written (jsonschema not importable, not validated)')


if __name__ == '__main__':
    main()
