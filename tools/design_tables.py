#!/usr/bin/env python3
"""Regenerates the generated tables of DESIGN.md section 7 from known_findings.json and seeded/*/meta.json."""
import json, os, re, subprocess
V = os.path.dirname(os.path.dirname(os.path.abspath(__file__)))
d = json.load(open(os.path.join(V, 'known_findings.json')))['findings']
fixed = {}
for f in d:
    if f['status'] == 'fixed':
        fixed.setdefault((f['property'], f['commit']), f)
fix_lines = ['| property | what failed (first signature) | commit |', '|---|---|---|']
for (prop, commit), f in sorted(fixed.items()):
    what = f['what'] if not f['what'].startswith('same root cause') else f['what']
    fix_lines.append(f"| {prop} | {what} (`{f['signature']}`) | `{commit}` |")
known_lines = ['| property | signature | what | why not repaired |', '|---|---|---|---|']
for f in d:
    if f['status'] == 'known':
        known_lines.append(f"| {f['property']} | `{f['signature']}` | {f['what']} | {f.get('why_not_fixed', 'same root cause as the entry above')} |")
seeded = subprocess.run([os.path.join(V, 'tools', 'seeded.py'), 'table'], capture_output=True, text=True).stdout.strip()
p = os.path.join(V, 'DESIGN.md')
s = open(p).read()
def put(s, name, body):
    begin, end = f'<!-- {name}:begin -->', f'<!-- {name}:end -->'
    block = f'{begin}\n{body}\n{end}'
    if begin in s:
        return re.sub(re.escape(begin) + '.*?' + re.escape(end), lambda m: block, s, flags=re.S)
    return s.replace(name + '_PLACEHOLDER', block)
s = put(s, 'FIXES_TABLE', '\n'.join(fix_lines))
s = put(s, 'KNOWN_TABLE', '\n'.join(known_lines))
s = put(s, 'SEEDED_TABLE', seeded)
open(p, 'w').write(s)
print('DESIGN.md tables regenerated:', len(fix_lines) - 2, 'fixes,', len(known_lines) - 2, 'known,', seeded.count('\n') - 1, 'seeded')
