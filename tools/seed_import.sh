#!/bin/sh
# tools/seed_import.sh Cxx : imports /tmp/Cxx-out/change{1,2} as Cxx-s1/s2 one at a time (global lock), logs to out/logs
P=$1
cd "$(dirname "$0")/.." || exit 2
for i in 1 2; do
  [ -d /tmp/$P-out/change$i ] || continue
  flock /var/tmp/seed-import.lock tools/seeded.py import /tmp/$P-out/change$i --id $P-s$i --props $P > out/logs/seed-$P-s$i.log 2>&1
done
