#!/bin/sh
# tools/seed_import.sh Cxx [offset] : imports /tmp/Cxx-out/change{1,2} as Cxx-s<offset+1>/s<offset+2> one at a time (global lock)
P=$1; OFF=${2:-0}
cd "$(dirname "$0")/.." || exit 2
for i in 1 2; do
  [ -d /tmp/$P-out/change$i ] || continue
  N=$((OFF + i))
  flock /var/tmp/seed-import.lock tools/seeded.py import /tmp/$P-out/change$i --id $P-s$N --props $P > out/logs/seed-$P-s$N.log 2>&1
done
