#!/bin/sh
# Runs every registered check (quick by default) sequentially against /repo and prints one line each.
# usage: tools/run_all.sh [quick|thorough] [seed]
cd "$(dirname "$0")/.." || exit 2
TIER="${1:-quick}"; SEED="${2:-1}"
for P in $(python3 -c "import json; print(' '.join(c['property_id'] for c in json.load(open('MANIFEST.json'))['checks']))"); do
  OUT=$(VERIF_SEED=$SEED ./check "$P" --tier "$TIER" 2>&1); RC=$?
  echo "$P rc=$RC $(echo "$OUT" | tail -1)"
  echo "$OUT" | grep -E "^(VIOLATION|HARNESS-ERROR|KNOWN-FINDING)" | cut -c1-160
done
