#!/usr/bin/env python3
"""Fills DESIGN.md's EXT_TABLE from tools/ext_summary.json (property -> {added, mutants, found})."""
import json, os, re
V = os.path.dirname(os.path.dirname(os.path.abspath(__file__)))
d = json.load(open(os.path.join(V, 'tools', 'ext_summary.json')))
lines = ['| property | added to the check | new mutants (missed before / caught now) | found on the unchanged tree |', '|---|---|---|---|']
for pid in sorted(d):
    e = d[pid]
    lines.append(f"| {pid} | {e['added']} | {e['mutants']} | {e['found']} |")
p = os.path.join(V, 'DESIGN.md')
s = open(p).read()
s = re.sub(r'<!-- EXT_TABLE:begin -->.*?<!-- EXT_TABLE:end -->', lambda m: '<!-- EXT_TABLE:begin -->\n' + '\n'.join(lines) + '\n<!-- EXT_TABLE:end -->', s, flags=re.S)
open(p, 'w').write(s)
print(len(d), 'rows')
