"""
World builder: N x (Device - Host - HCI tap - Controller) on one LocalLink, built from
public constructors only (modelled on tests/test_utils.py::Devices), plus a RawPeer
(bare Host + Controller) that plays a non-Bumble peer with hand-made L2CAP frames.
Everything must be created inside a coroutine running on a vlib.vloop.VirtualLoop.
"""

from __future__ import annotations

import asyncio
import collections
import itertools

from bumble import hci
from bumble.controller import Controller
from bumble.core import PhysicalTransport
from bumble.device import Device
from bumble.host import Host
from bumble.link import LocalLink

H2C, C2H = 'h2c', 'c2h'


class Tap:
    """HCI tap between one Host and its Controller.

    Records (virtual time, direction, bytes) and forwards with a generated
    order-preserving delay: deliver_at = max(previous deliver_at, now + d).
    With no delays it behaves like bumble.transport.common.AsyncPipeSink.
    """

    def __init__(self, name: str = '', delays=None, unit: float = 0.001, direct: bool = False):
        self.name = name
        # direct: like `host.controller = controller` (examples/): what the host sends reaches the controller
        # synchronously, what the controller sends reaches the host one loop callback later - no extra hop
        self.direct = direct
        self.loop = asyncio.get_running_loop()
        self.log: list[tuple[float, str, bytes]] = []
        self.unit = unit
        self._delays = {H2C: self._cycle(delays, 0), C2H: self._cycle(delays, 1)}
        self._last = {H2C: 0.0, C2H: 0.0}
        self._queue = {H2C: collections.deque(), C2H: collections.deque()}
        self.sinks = {H2C: None, C2H: None}
        self.listeners = []  # callables (direction, bytes) called at delivery time
        self.filters = []  # callables (direction, bytes) -> bytes | None (drop) at delivery
        self.to_controller = _TapEnd(self, H2C)
        self.to_host = _TapEnd(self, C2H)

    @staticmethod
    def _cycle(delays, phase):
        if not delays:
            return itertools.repeat(0)
        d = list(delays)
        d = d[phase % len(d) :] + d[: phase % len(d)]
        return itertools.cycle(d)

    def _forward(self, direction: str, packet: bytes) -> None:
        now = self.loop.time()
        d = next(self._delays[direction]) * self.unit
        when = max(self._last[direction], now + d)
        self._last[direction] = when
        # Timers with equal deadlines may fire in any order (heapq is not stable), so every
        # scheduled callback delivers the OLDEST queued packet of its direction: FIFO always.
        if self.direct and when <= now and not self._queue[direction]:
            self._deliver(direction, packet)
            return
        self._queue[direction].append(packet)
        if when <= now:
            self.loop.call_soon(self._deliver_next, direction)
        else:
            self.loop.call_at(when, self._deliver_next, direction)

    def _deliver_next(self, direction: str) -> None:
        if self._queue[direction]:
            self._deliver(direction, self._queue[direction].popleft())

    def _deliver(self, direction: str, packet: bytes) -> None:
        for f in self.filters:
            packet = f(direction, packet)
            if packet is None:
                return
        self.log.append((self.loop.time(), direction, packet))
        for listener in list(self.listeners):
            listener(direction, packet)
        sink = self.sinks[direction]
        if sink is not None:
            sink.on_packet(packet)

    def count(self) -> int:
        return len(self.log)


class _TapEnd:
    def __init__(self, tap: Tap, direction: str):
        self.tap = tap
        self.direction = direction

    def on_packet(self, packet: bytes) -> None:
        self.tap._forward(self.direction, bytes(packet))


class OrderedLink(LocalLink):
    """LocalLink whose controller iteration order is insertion order (reproducible),
    optionally permuted by the harness; records what crosses the link."""

    def __init__(self, order=None):
        super().__init__()
        self.controllers = _OrderedSet(order)
        self.acl_log: list[tuple[str, str, bytes]] = []

    def send_acl_data(self, sender_controller, destination_address, transport, data):
        self.acl_log.append((sender_controller.name, str(destination_address), bytes(data)))
        return super().send_acl_data(sender_controller, destination_address, transport, data)


class _OrderedSet:
    def __init__(self, order=None):
        self.items: list = []
        self.order = order

    def add(self, x):
        if x not in self.items:
            self.items.append(x)

    def remove(self, x):
        self.items.remove(x)

    def discard(self, x):
        if x in self.items:
            self.items.remove(x)

    def __iter__(self):
        items = list(self.items)
        if self.order:
            idx = [i for i in self.order if i < len(items)]
            idx += [i for i in range(len(items)) if i not in idx]
            items = [items[i] for i in idx]
        return iter(items)

    def __len__(self):
        return len(self.items)

    def __contains__(self, x):
        return x in self.items


def public_addr(i: int) -> str:
    return ':'.join([f'F{i}'] * 6)


def random_addr(i: int) -> str:
    # static random address (two MSBs set)
    return f'C{i}:0{i}:0{i}:0{i}:0{i}:0{i}'


class Node:
    """One full Bumble device with its host, tap and controller."""

    def __init__(self, world, index: int, *, delays=None, classic=False, geometry=None,
                 le_features=None, extended_adv=None, device_kwargs=None, configure=None, direct=False,
                 stream=False):
        self.world = world
        self.index = index
        self.controller = Controller(f'C{index}', link=world.link, public_address=public_addr(index))
        if geometry:
            for k, v in geometry.items():
                setattr(self.controller, k, v)
        if le_features is not None:
            self.controller.le_features = le_features
        self.tap = Tap(f'T{index}', delays, direct=direct)
        self.host = Host()
        # host -> tap -> controller, controller -> tap -> host
        self.host.set_packet_sink(self.tap.to_controller)
        self.tap.sinks[H2C] = self.controller
        self.controller.set_packet_sink(self.tap.to_host)
        self.tap.sinks[C2H] = self.host
        if stream:
            # like every byte-stream transport (serial, tcp, pty, usb...): what the controller sends reaches the host
            # through bumble.transport.common.PacketParser
            from bumble.transport.common import PacketParser

            parser = PacketParser(self.host)
            self.parser = parser

            class _Stream:
                @staticmethod
                def on_packet(packet):
                    parser.feed_data(bytes(packet))

            self.tap.sinks[C2H] = _Stream()
        self.device = Device(
            name=f'D{index}',
            address=hci.Address(random_addr(index)),
            host=self.host,
            **(device_kwargs or {}),
        )
        self.device.classic_enabled = classic
        if classic:
            self.device.classic_accept_any = True
            self.controller.lmp_features = hci.LmpFeatureMask(
                int(self.controller.lmp_features) & ~int(hci.LmpFeatureMask.BR_EDR_NOT_SUPPORTED)
            )
        if configure:
            configure(self)
        self.connections: list = []
        self.device.on('connection', self.connections.append)

    @property
    def random_address(self):
        return self.device.random_address

    @property
    def public_address(self):
        return self.controller.public_address


class World:
    def __init__(self, n: int = 2, *, delays=None, classic=False, geometry=None, link_order=None,
                 device_kwargs=None, configure=None, le_features=None, direct=False, stream=False):
        self.link = OrderedLink(link_order)
        self.nodes: list[Node] = []
        for i in range(n):
            g = geometry[i] if isinstance(geometry, list) else geometry
            d = delays[i] if (delays and isinstance(delays[0], (list, tuple))) else delays
            self.nodes.append(
                Node(self, i, delays=d, classic=classic, geometry=g, device_kwargs=device_kwargs,
                     configure=configure, le_features=le_features,
                     direct=direct[i] if isinstance(direct, (list, tuple)) else direct, stream=stream)
            )

    def __getitem__(self, i) -> Node:
        return self.nodes[i]

    @property
    def devices(self):
        return [n.device for n in self.nodes]

    async def power_on(self):
        for n in self.nodes:
            await n.device.power_on()

    async def connect_le(self, central: int, peripheral: int, own_address_type=None, timeout=None):
        """central connects to peripheral (which advertises); returns (conn_c, conn_p)."""
        c, p = self.nodes[central], self.nodes[peripheral]
        fut = asyncio.get_running_loop().create_future()

        def on_conn(conn):
            if not fut.done():
                fut.set_result(conn)

        p.device.once('connection', on_conn)
        await p.device.start_advertising(advertising_interval_min=1000.0, advertising_interval_max=1000.0)
        kwargs = {}
        if own_address_type is not None:
            kwargs['own_address_type'] = own_address_type
        conn_c = await c.device.connect(p.device.random_address, **kwargs)
        conn_p = await fut
        try:
            await p.device.stop_advertising()
        except Exception:
            pass
        return conn_c, conn_p

    async def connect_classic(self, initiator: int, acceptor: int):
        a, b = self.nodes[initiator], self.nodes[acceptor]
        fut = asyncio.get_running_loop().create_future()
        b.device.once('connection', lambda c: fut.done() or fut.set_result(c))
        conn_a = await a.device.connect(b.controller.public_address, transport=PhysicalTransport.BR_EDR)
        conn_b = await fut
        return conn_a, conn_b


async def quiesce(loop, max_time: float = 0.0):
    """Let everything that is ready run (from inside a coroutine)."""
    for _ in range(3):
        fut = loop.create_future()
        loop.call_soon(fut.set_result, None)
        await fut
    if max_time:
        await asyncio.sleep(max_time)


async def settle(rounds: int = 50):
    """Yield until the ready queue has had `rounds` chances to drain (zero virtual time)."""
    for _ in range(rounds):
        await asyncio.sleep(0)


# ---------------------------------------------------------------------------
class RawPeer:
    """A non-Bumble peer: real virtual Controller + bare Host, no Device, no L2CAP manager.

    The harness drives it with HCI commands and hand-made L2CAP frames and records every
    L2CAP PDU the device under test sends to it.
    """

    def __init__(self, world_or_link, index: int = 9, delays=None):
        link = world_or_link.link if hasattr(world_or_link, 'link') else world_or_link
        self.index = index
        self.controller = Controller(f'R{index}', link=link, public_address=public_addr(index))
        self.tap = Tap(f'TR{index}', delays)
        self.host = Host()
        self.host.set_packet_sink(self.tap.to_controller)
        self.tap.sinks[H2C] = self.controller
        self.controller.set_packet_sink(self.tap.to_host)
        self.tap.sinks[C2H] = self.host
        self.received: list[tuple[int, int, bytes]] = []  # (handle, cid, payload)
        self.handle = None
        self.address = hci.Address(random_addr(index))
        self.host.on('l2cap_pdu', self._on_pdu)
        self.events: list = []
        self.host.on('disconnection', lambda handle, reason: self.events.append(('disconnection', handle, reason)))

    def _on_pdu(self, handle, cid, payload):
        self.received.append((handle, cid, bytes(payload)))

    async def start(self):
        await self.host.reset(driver_factory=None)
        await self.host.send_sync_command(hci.HCI_LE_Set_Random_Address_Command(random_address=self.address))

    async def connect_to(self, device: Device, peer_address_type=hci.Address.RANDOM_DEVICE_ADDRESS):
        """Raw peer is central; `device` advertises."""
        loop = asyncio.get_running_loop()
        fut = loop.create_future()
        dfut = loop.create_future()
        self.host.once('le_connection', lambda handle, *a: fut.done() or fut.set_result(handle))
        device.once('connection', lambda c: dfut.done() or dfut.set_result(c))
        await device.start_advertising(advertising_interval_min=1000.0, advertising_interval_max=1000.0)
        await self.host.send_async_command(
            hci.HCI_LE_Create_Connection_Command(
                le_scan_interval=96, le_scan_window=96, initiator_filter_policy=0,
                peer_address_type=peer_address_type, peer_address=device.random_address,
                own_address_type=hci.OwnAddressType.RANDOM, connection_interval_min=12,
                connection_interval_max=24, max_latency=0, supervision_timeout=72,
                min_ce_length=0, max_ce_length=0,
            )
        )
        self.handle = await fut
        conn = await dfut
        try:
            await device.stop_advertising()
        except Exception:
            pass
        return conn

    def send(self, cid: int, payload: bytes) -> None:
        self.host.send_l2cap_pdu(self.handle, cid, payload)

    def send_acl(self, data: bytes, pb_flag: int = 0) -> None:
        """One raw ACL packet (for malformed fragment sequences)."""
        self.host.send_hci_packet(
            hci.HCI_AclDataPacket(
                connection_handle=self.handle, pb_flag=pb_flag, bc_flag=0,
                data_total_length=len(data), data=data,
            )
        )

    def take(self, cid=None):
        """Returns and clears the PDUs received so far (optionally for one CID)."""
        if cid is None:
            out, self.received = self.received, []
            return out
        out = [r for r in self.received if r[1] == cid]
        self.received = [r for r in self.received if r[1] != cid]
        return out
