"""
Coverage-guided campaigns with atheris (libFuzzer), thorough tier only.

A target is a function `target(data: bytes) -> None` in a check module that raises
`FuzzViolation(signature, what)` when its in-target oracle fails. Campaigns run in a
subprocess (atheris.Fuzz() owns the process): `python -m vlib.fuzz <module> <function> ...`.
The saved failing input is the reproducible unit; it is handed back to the caller, which
records it with ctx.fail(...) and a plain-data replay case.
"""

from __future__ import annotations

import json
import os
import subprocess
import sys
import time

VERIF = os.path.dirname(os.path.dirname(os.path.abspath(__file__)))


class FuzzViolation(Exception):
    def __init__(self, signature: str, what: str):
        super().__init__(f'{signature}: {what}')
        self.signature = signature
        self.what = what


def available() -> bool:
    try:
        import atheris  # noqa: F401

        return True
    except Exception:
        return False


def campaign(ctx, module: str, function: str, runs: int, max_len: int = 512, seeds=(), name=None, timeout=900):
    """Runs one campaign; returns dict(executions, crashes=[(signature, what, data)], status)."""
    name = name or function
    if not available():
        ctx.notes.append(f'atheris not importable: fuzz target {name} skipped')
        return {'status': 'skipped', 'executions': 0, 'crashes': []}
    work = ctx.outdir('fuzz', name)
    corpus = os.path.join(work, 'corpus')
    crashes = os.path.join(work, 'crashes')
    for d in (corpus, crashes):
        if os.path.isdir(d):
            for fn in os.listdir(d):
                os.unlink(os.path.join(d, fn))
        os.makedirs(d, exist_ok=True)
    for i, s in enumerate(seeds):
        with open(os.path.join(corpus, f'seed{i}'), 'wb') as f:
            f.write(s)
    result_path = os.path.join(work, 'result.json')
    if os.path.exists(result_path):
        os.unlink(result_path)
    cmd = [
        sys.executable, '-m', 'vlib.fuzz', module, function, result_path, crashes + '/',
        corpus, f'-runs={runs}', f'-seed={ctx.subseed("fuzz/" + name) or 1}', f'-max_len={max_len}',
        f'-artifact_prefix={crashes}/', '-print_final_stats=0', '-verbosity=0',
    ]
    t0 = time.time()
    try:
        p = subprocess.run(cmd, cwd=VERIF, capture_output=True, text=True, timeout=timeout)
        status = 'done' if p.returncode == 0 else f'rc={p.returncode}'
    except subprocess.TimeoutExpired:
        status = 'timeout'
    out = {'status': status, 'executions': 0, 'crashes': [], 'wall_s': round(time.time() - t0, 1)}
    if os.path.exists(result_path):
        with open(result_path) as f:
            r = json.load(f)
        out['executions'] = r.get('executions', 0)
        if r.get('violation'):
            v = r['violation']
            if v['signature'] == '__harness__':
                from vlib.runner import HarnessError

                raise HarnessError(f'fuzz target {name} raised {v["what"]} on input {v["data"][:200]}')
            out['crashes'].append((v['signature'], v['what'], bytes.fromhex(v['data'])))
    if status not in ('done', 'timeout') and not out['crashes']:
        from vlib.runner import HarnessError

        raise HarnessError(f'fuzz campaign {name} ended with {status} and recorded no violation: {p.stderr[-400:] if status != "timeout" else ""}')
    ctx.labels[f'fuzz_executions:{name}'] += out['executions']
    return out


def _worker(argv):
    module, function, result_path, _crashes = argv[1:5]
    libfuzzer_args = [argv[0]] + argv[5:]
    import atheris

    with atheris.instrument_imports(include=['bumble', 'checks']):
        import importlib

        mod = importlib.import_module(module)
    target = getattr(mod, function)
    state = {'executions': 0}
    # this file runs as __main__: the class the targets raise is the one of the importable module
    from vlib.fuzz import FuzzViolation as TargetViolation

    def flush(violation=None):
        with open(result_path, 'w') as f:
            json.dump({'executions': state['executions'], 'violation': violation}, f)

    def test_one_input(data: bytes):
        state['executions'] += 1
        try:
            target(data)
        except (FuzzViolation, TargetViolation) as v:
            flush({'signature': v.signature, 'what': v.what, 'data': bytes(data).hex()})
            raise
        except BaseException as e:  # anything else escaping the target is a bug of the harness
            flush({'signature': '__harness__', 'what': f'{type(e).__name__}: {e}', 'data': bytes(data).hex()})
            raise
        if state['executions'] % 5000 == 0:
            flush()

    import atexit  # noqa: F401  (atexit does not run under libFuzzer: flush explicitly)

    import logging

    logging.disable(logging.CRITICAL)
    flush()
    atheris.Setup(libfuzzer_args, test_one_input)
    try:
        atheris.Fuzz()
    finally:
        if not os.path.exists(result_path) or json.load(open(result_path)).get('violation') is None:
            flush()


if __name__ == '__main__':
    _worker(sys.argv)
