"""
Spec-driven codec generator for Bumble's `(name, spec)` field lists
(HCI_Object.fields / fields_from_dataclass), shared by C01, C18, C03, C10, C17.

`fields_strategy(fields, budget)` draws `(values, wire, expected)`:
  values   - kwargs for the class constructor
  wire     - the reference encoding computed HERE (int.to_bytes etc.), independent of
             HCI_Object.serialize_field
  expected - what a parser must give back (differs from `values` only for the documented
             zero-padding of short fixed-size byte fields)
"""

from __future__ import annotations

import dataclasses
import functools

from hypothesis import strategies as st

from bumble import hci


class UnknownSpec(Exception):
    pass


# ---------------------------------------------------------------------------
# value strategies
# ---------------------------------------------------------------------------
def uint(nbytes: int):
    top = (1 << (8 * nbytes)) - 1
    half = 1 << (8 * nbytes - 1)
    edge = sorted(x for x in {0, 1, 2, 0x7F, 0x80, 0xFF, half - 1, half, top - 1, top} if 0 <= x <= top)
    return st.one_of(st.sampled_from(edge), st.integers(0, top))


def sint(nbytes: int):
    half = 1 << (8 * nbytes - 1)
    return st.one_of(st.sampled_from([-half, -half + 1, -1, 0, 1, half - 1]), st.integers(-half, half - 1))


def nbytes_exact(n: int):
    return st.one_of(
        st.just(bytes(n)),
        st.just(b'\xff' * n),
        st.binary(min_size=n, max_size=n),
        st.binary(min_size=n, max_size=n),
    )


def _closure_vars(fn) -> dict:
    code = getattr(fn, '__code__', None)
    if code is None or not fn.__closure__:
        return {}
    return {
        name: cell.cell_contents for name, cell in zip(code.co_freevars, fn.__closure__)
    }


_ENUM_PARSER_CODES = set()
for _c in (hci.SpecableEnum, hci.SpecableFlag):
    _ENUM_PARSER_CODES.add(_c.type_spec(1)['parser'].__code__)


def classify(spec):
    """Returns a (kind, detail) description of a field spec."""
    if isinstance(spec, dict):
        if 'size' in spec:
            return classify(spec['size'])
        parser = spec.get('parser')
        if parser is not None and getattr(parser, '__code__', None) in _ENUM_PARSER_CODES:
            cv = _closure_vars(parser)
            return ('enum', (cv['cls'], cv['size'], cv['byteorder']))
        if parser is hci.HCI_Object.parse_length_prefixed_bytes:
            ser = spec.get('serializer')
            padded = 0
            if isinstance(ser, functools.partial):
                padded = ser.keywords.get('padded_size', 0)
            return ('lpbytes', padded)
        if parser is not None:
            return ('opaque', (parser, spec.get('serializer')))
        raise UnknownSpec(f'dict spec without size/parser: {spec!r}')
    if isinstance(spec, bool):
        raise UnknownSpec(repr(spec))
    if isinstance(spec, int):
        if spec in (1, 2, 3, 4):
            return ('uint', spec)
        if spec in (-1, -2):
            return ('sint', -spec)
        if 4 < spec <= 256:
            return ('bytes', spec)
        raise UnknownSpec(repr(spec))
    if isinstance(spec, str):
        if spec == '>2':
            return ('ubig', 2)
        if spec == '>4':
            return ('ubig', 4)
        if spec == '*':
            return ('rest', None)
        if spec == 'v':
            return ('var', None)
        raise UnknownSpec(repr(spec))
    if callable(spec):
        owner = getattr(spec, '__self__', None)
        func = getattr(spec, '__func__', None)
        if owner is not None and isinstance(owner, type):
            if issubclass(owner, hci.Address):
                if func is hci.Address.parse_address.__func__:
                    return ('address', hci.Address.PUBLIC_DEVICE_ADDRESS)
                if func is hci.Address.parse_random_address.__func__:
                    return ('address', hci.Address.RANDOM_DEVICE_ADDRESS)
                if func is hci.Address.parse_address_preceded_by_type.__func__:
                    return ('address_preceded', None)
            if (
                issubclass(owner, hci.HCI_Dataclass_Object)
                and func is hci.HCI_Dataclass_Object.parse_from_bytes.__func__
            ):
                return ('nested', owner)
        return ('opaque', (spec, None))
    raise UnknownSpec(repr(spec))


def min_size(spec) -> int:
    kind, d = classify(spec)
    if kind in ('uint', 'sint', 'ubig', 'bytes'):
        return d
    if kind == 'enum':
        return d[1]
    if kind in ('address', 'address_preceded'):
        return 6
    if kind == 'lpbytes':
        return max(1, d)
    if kind == 'var':
        return 1
    if kind == 'rest':
        return 0
    if kind == 'nested':
        return sum(group_min_size(f) for f in hci.HCI_Object.fields_from_dataclass(d))
    return 8  # opaque: a guess, only used for budgeting


def group_min_size(field) -> int:
    if isinstance(field, list):
        return 1
    return min_size(field[1])


@st.composite
def field_value(draw, spec, prefix: bytes, budget: int, last: bool):
    """Draws (value, wire, expected) for one field; `prefix` is the wire so far."""
    kind, d = classify(spec)
    if kind == 'uint':
        v = draw(uint(d))
        return v, v.to_bytes(d, 'little'), v
    if kind == 'sint':
        v = draw(sint(d))
        return v, v.to_bytes(d, 'little', signed=True), v
    if kind == 'ubig':
        v = draw(uint(d))
        return v, v.to_bytes(d, 'big'), v
    if kind == 'enum':
        cls, size, byteorder = d
        members = [int(m) for m in cls] or [0]
        v = draw(st.one_of(st.sampled_from(members), uint(size)))
        return cls(v), v.to_bytes(size, byteorder), cls(v)
    if kind == 'bytes':
        if draw(st.integers(0, 9)) == 0 and d > 5:
            # the documented pad rule: short values are zero-padded
            short = draw(st.binary(min_size=0, max_size=d - 1))
            padded = short + bytes(d - len(short))
            return short, padded, padded
        v = draw(nbytes_exact(d))
        return v, v, v
    if kind == 'var':
        cap = max(0, min(255, budget - 1))
        n = draw(st.sampled_from(sorted(x for x in {0, 1, 2, min(cap, 31), cap} if x <= cap)))
        v = draw(st.binary(min_size=n, max_size=n))
        return v, bytes([len(v)]) + v, v
    if kind == 'lpbytes':
        cap = d - 1 if d else min(255, max(0, budget - 1))
        n = draw(st.integers(0, cap))
        v = draw(st.binary(min_size=n, max_size=n))
        wire = bytes([n]) + v
        if len(wire) < d:
            wire += bytes(d - len(wire))
        return v, wire, v
    if kind == 'rest':
        if not last:
            raise UnknownSpec("'*' field that is not last")
        cap = max(0, budget)
        n = draw(st.sampled_from(sorted(x for x in {0, 1, min(cap, 7), cap} if x <= cap)))
        v = draw(st.binary(min_size=n, max_size=n))
        return v, v, v
    if kind == 'address':
        raw = draw(nbytes_exact(6))
        a = hci.Address(raw, d)
        return a, raw, a
    if kind == 'address_preceded':
        raw = draw(nbytes_exact(6))
        if not prefix:
            raise UnknownSpec('address preceded by type at offset 0')
        a = hci.Address(raw, hci.AddressType(prefix[-1]))
        return a, raw, a
    if kind == 'nested':
        sub_fields = hci.HCI_Object.fields_from_dataclass(d)
        values, wire, expected = draw(fields_strategy(sub_fields, budget, prefix=prefix))
        return d(**values), wire, d(**expected)
    if kind == 'opaque':
        parser, _serializer = d
        blob = draw(st.binary(min_size=0, max_size=min(24, max(0, budget))))
        for pad in (0, 8, 64):
            data = prefix + blob + bytes(pad)
            try:
                new_offset, value = parser(data, len(prefix))
            except Exception:
                continue
            if new_offset > len(data):
                continue
            consumed = data[len(prefix) : new_offset]
            return value, consumed, value
        raise UnknownSpec(f'opaque parser rejects generated bytes: {parser!r}')
    raise UnknownSpec(kind)


@st.composite
def fields_strategy(draw, fields, budget: int = 255, prefix: bytes = b''):
    """Draws (values, wire, expected) for a whole field list within `budget` bytes."""
    values: dict = {}
    expected: dict = {}
    wire = b''
    flat = list(fields)
    # bytes that the fields after position i need at least
    tail_need = [0] * (len(flat) + 1)
    for i in range(len(flat) - 1, -1, -1):
        tail_need[i] = tail_need[i + 1] + group_min_size(flat[i])
    for i, f in enumerate(flat):
        last = i == len(flat) - 1
        room = budget - len(wire) - tail_need[i + 1]
        if isinstance(f, list):
            item_min = sum(min_size(s) for _, s in f)
            max_items = max(0, min(255, (room - 1) // max(1, item_min)))
            count = draw(st.sampled_from(sorted({0, 1, 2, min(3, max_items), min(max_items, 6)} & set(range(max_items + 1)))))
            for name, _ in f:
                values[name] = []
                expected[name] = []
            wire += bytes([count])
            sub_min = [min_size(s) for _, s in f]
            for j in range(count):
                for k, (name, s) in enumerate(f):
                    reserve = tail_need[i + 1] + (count - j - 1) * item_min + sum(sub_min[k + 1 :])
                    v, w, e = draw(
                        field_value(s, prefix + wire, budget - len(wire) - reserve, False)
                    )
                    values[name].append(v)
                    expected[name].append(e)
                    wire += w
            continue
        name, s = f
        v, w, e = draw(field_value(s, prefix + wire, room, last))
        values[name] = v
        expected[name] = e
        wire += w
    return values, wire, expected


# ---------------------------------------------------------------------------
# comparison
# ---------------------------------------------------------------------------
def canon(v):
    """A comparable, implementation-independent rendering of a field value."""
    if isinstance(v, hci.Address):
        return ('addr', bytes(v), int(v.address_type))
    if isinstance(v, bool):
        return int(v)
    if isinstance(v, int):
        return int(v)
    if isinstance(v, (bytes, bytearray, memoryview)):
        return bytes(v)
    if isinstance(v, (list, tuple)):
        return tuple(canon(x) for x in v)
    if isinstance(v, hci.HCI_Object):
        fields = getattr(v, 'fields', None) or ()
        return ('obj', type(v).__name__, tuple((n, canon(getattr(v, n, None))) for n in flat_names(fields)))
    if dataclasses.is_dataclass(v) and not isinstance(v, type):
        return ('dc', type(v).__name__, tuple((f.name, canon(getattr(v, f.name))) for f in dataclasses.fields(v)))
    if hasattr(v, '__bytes__'):
        return ('bytes', type(v).__name__, bytes(v))
    return ('repr', repr(v))


def flat_names(fields):
    for f in fields:
        if isinstance(f, list):
            for name, _ in f:
                yield name
        else:
            yield f[0]


def diff_fields(obj, expected: dict):
    """Names of fields of obj whose value differs from `expected`."""
    bad = []
    for name, e in expected.items():
        got = getattr(obj, name, '<missing>')
        if canon(got) != canon(e):
            bad.append(name)
    return bad


def describe(values: dict) -> dict:
    """JSON-able rendering of a values dict for samples / replay files."""
    out = {}
    for k, v in values.items():
        c = canon(v)
        out[k] = _plain(c)
    return out


def _plain(c):
    if isinstance(c, bytes):
        return c.hex()
    if isinstance(c, tuple):
        return [_plain(x) for x in c]
    return c


# ---------------------------------------------------------------------------
# reference decoder (used by replay files: wire -> expected values)
# ---------------------------------------------------------------------------
def decode_field(spec, data: bytes, offset: int, last: bool):
    kind, d = classify(spec)
    if kind == 'uint':
        return int.from_bytes(data[offset : offset + d], 'little'), offset + d
    if kind == 'sint':
        return int.from_bytes(data[offset : offset + d], 'little', signed=True), offset + d
    if kind == 'ubig':
        return int.from_bytes(data[offset : offset + d], 'big'), offset + d
    if kind == 'enum':
        cls, size, byteorder = d
        return cls(int.from_bytes(data[offset : offset + size], byteorder)), offset + size
    if kind == 'bytes':
        return data[offset : offset + d], offset + d
    if kind == 'var':
        n = data[offset]
        return data[offset + 1 : offset + 1 + n], offset + 1 + n
    if kind == 'lpbytes':
        n = data[offset]
        return data[offset + 1 : offset + 1 + n], offset + max(1 + n, d)
    if kind == 'rest':
        return data[offset:], len(data)
    if kind == 'address':
        return hci.Address(data[offset : offset + 6], d), offset + 6
    if kind == 'address_preceded':
        return hci.Address(data[offset : offset + 6], hci.AddressType(data[offset - 1])), offset + 6
    if kind == 'nested':
        sub_fields = hci.HCI_Object.fields_from_dataclass(d)
        values, offset = decode_fields(sub_fields, data, offset)
        return d(**values), offset
    if kind == 'opaque':
        new_offset, value = d[0](data, offset)
        return value, new_offset
    raise UnknownSpec(kind)


def decode_fields(fields, data: bytes, offset: int = 0):
    values: dict = {}
    flat = list(fields)
    for i, f in enumerate(flat):
        last = i == len(flat) - 1
        if isinstance(f, list):
            count = data[offset]
            offset += 1
            for name, _ in f:
                values[name] = []
            for _ in range(count):
                for name, s in f:
                    v, offset = decode_field(s, data, offset, False)
                    values[name].append(v)
            continue
        name, s = f
        v, offset = decode_field(s, data, offset, last)
        values[name] = v
    return values, offset
