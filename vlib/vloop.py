"""
Virtual-time asyncio loop with stall detection.

The harness owns the clock: when nothing is ready the loop jumps to the earliest
timer instead of sleeping; when there is neither a ready handle nor a timer the
loop is *stalled* (whatever is still awaited will never complete).
Relies on CPython's private BaseEventLoop fields `_ready` / `_scheduled` /
`_stopping` (checked by selftest()).
"""

from __future__ import annotations

import asyncio
import heapq
import selectors

HORIZON = 1800.0  # virtual seconds; larger than every operation time-out in bumble


class Stalled(Exception):
    """The awaited operation can never complete: no ready handle and no timer."""


class HorizonExceeded(Exception):
    """The awaited operation did not complete within the virtual-time horizon."""


class BudgetExceeded(Exception):
    """Too many loop iterations for one awaited operation (harness budget; inconclusive)."""


class _NullSelector(selectors.BaseSelector):
    """Selector that never blocks: the virtual loop has no real I/O."""

    def __init__(self):
        self._map = {}

    def register(self, fileobj, events, data=None):
        key = selectors.SelectorKey(fileobj, fileobj if isinstance(fileobj, int) else fileobj.fileno(), events, data)
        self._map[key.fd] = key
        return key

    def unregister(self, fileobj):
        fd = fileobj if isinstance(fileobj, int) else fileobj.fileno()
        return self._map.pop(fd, None)

    def select(self, timeout=None):
        return []

    def get_map(self):
        return self._map

    def close(self):
        self._map.clear()


class VirtualLoop(asyncio.SelectorEventLoop):
    def __init__(self):
        super().__init__(selector=_NullSelector())
        self._vtime = 0.0
        self.stalled = False
        self.limit = None  # absolute virtual time at which run stops
        self.limit_hit = False
        self.errors: list[dict] = []
        self.iterations = 0
        self.max_iterations = 2_000_000
        self.budget_hit = False
        self.set_exception_handler(self._on_error)

    def _on_error(self, loop, context):
        self.errors.append(
            {
                'message': context.get('message'),
                'exception': context.get('exception'),
            }
        )

    def time(self):
        return self._vtime

    def _next_timer(self):
        while self._scheduled and self._scheduled[0]._cancelled:
            h = heapq.heappop(self._scheduled)
            h._scheduled = False
            self._timer_cancelled_count = max(0, self._timer_cancelled_count - 1)
        return self._scheduled[0] if self._scheduled else None

    def _run_once(self):
        self.iterations += 1
        if self.iterations > self.max_iterations:
            self.budget_hit = True
            self._stopping = True
            self._ready.clear()
            return
        if not self._ready:
            t = self._next_timer()
            if t is None:
                self.stalled = True
                self._stopping = True
                return
            when = t._when
            if self.limit is not None and when > self.limit:
                self.limit_hit = True
                self._vtime = self.limit
                self._stopping = True
                return
            if when > self._vtime:
                self._vtime = when
        super()._run_once()

    # -- harness API ---------------------------------------------------------
    def run_for(self, duration: float) -> None:
        """Run until stalled or until `duration` virtual seconds have passed."""
        self.iterations = 0
        self.budget_hit = False
        self.stalled = False
        self.limit_hit = False
        self.limit = self._vtime + duration
        try:
            self.call_at(self.limit, self.stop)
            self.run_forever()
        finally:
            self.limit = None

    def settle(self, max_time: float = 0.0) -> None:
        """Run everything that is ready now (and timers up to max_time ahead)."""
        self.run_for(max_time)

    def complete(self, aw, horizon: float = HORIZON):
        """Run until `aw` is done. Raises Stalled / HorizonExceeded if it cannot finish."""
        fut = asyncio.ensure_future(aw, loop=self)
        self.stalled = False
        self.limit_hit = False
        self.iterations = 0
        self.budget_hit = False
        self.limit = self._vtime + horizon
        fut.add_done_callback(lambda _f: self.stop())
        try:
            if not fut.done():
                self.run_forever()
        finally:
            self.limit = None
        if fut.done():
            return fut.result()
        if self.budget_hit:
            raise BudgetExceeded()
        if self.stalled:
            fut.cancel()
            self._drain_cancel()
            raise Stalled()
        fut.cancel()
        self._drain_cancel()
        raise HorizonExceeded()

    def _drain_cancel(self):
        # let cancellations propagate without advancing time
        self.limit = self._vtime
        try:
            self.call_soon(self.stop)
            self.run_forever()
        finally:
            self.limit = None

    def pending_tasks(self):
        return [t for t in asyncio.all_tasks(self) if not t.done()]

    def shutdown(self):
        try:
            for t in asyncio.all_tasks(self):
                t.cancel()
            self._drain_cancel()
        except Exception:
            pass
        try:
            self.close()
        except Exception:
            pass
        asyncio.set_event_loop(None)


def new_loop() -> VirtualLoop:
    loop = VirtualLoop()
    asyncio.set_event_loop(loop)
    return loop


def run_case(coro_fn, horizon: float = HORIZON):
    """Run `await coro_fn(loop)` in a fresh virtual loop; returns (result, loop_errors)."""
    loop = new_loop()
    try:
        result = loop.complete(coro_fn(loop), horizon)
        return result, loop.errors
    finally:
        loop.shutdown()


def selftest() -> None:
    """Exit-2 guard: the private-field based loop behaves as the harness assumes."""
    loop = new_loop()
    try:
        async def sleeper():
            await asyncio.sleep(30)
            return 7

        assert loop.complete(sleeper()) == 7
        assert abs(loop.time() - 30) < 1e-6

        async def orphan():
            await loop.create_future()

        try:
            loop.complete(orphan())
            raise AssertionError('stall not detected')
        except Stalled:
            pass

        async def forever():
            while True:
                await asyncio.sleep(100)

        try:
            loop.complete(forever(), horizon=1000)
            raise AssertionError('horizon not detected')
        except HorizonExceeded:
            pass
    finally:
        loop.shutdown()
