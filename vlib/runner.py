"""
Runner shared by all checks.

  ./check Cxx [--tier quick|thorough] [--replay file] [--shard i/n --partial file]

Exit codes: 0 = property held on everything explored (KNOWN-FINDING lines may be
printed); 1 = at least one `VIOLATION property=<id> replay=<path>` line printed;
2 = harness error (never to be read as a property violation).
"""

from __future__ import annotations

import argparse
import collections
import fnmatch
import hashlib
import importlib
import json
import logging
import os
import subprocess
import sys
import time
import traceback
import zlib

VERIF = os.path.dirname(os.path.dirname(os.path.abspath(__file__)))
REPO = os.environ.get('VERIF_REPO', '/repo')

CHECKS = {
    'C01': 'checks.c01_hci_codec',
    'C02': 'checks.c02_framing',
    'C03': 'checks.c03_hci_commands',
    'C04': 'checks.c04_flow_control',
    'C05': 'checks.c05_acl_fragmentation',
    'C06': 'checks.c06_link_routing',
    'C07': 'checks.c07_le_coc',
    'C08': 'checks.c08_classic_channels',
    'C09': 'checks.c09_channel_tables',
    'C10': 'checks.c10_att_server',
    'C11': 'checks.c11_permissions',
    'C12': 'checks.c12_gatt_client',
    'C13': 'checks.c13_pairing',
    'C14': 'checks.c14_crypto',
    'C15': 'checks.c15_keystore',
    'C16': 'checks.c16_teardown',
    'C17': 'checks.c17_hostile_input',
    'C18': 'checks.c18_pdu_codecs',
    'C19': 'checks.c19_sdp_avdtp',
    'C20': 'checks.c20_rfcomm_hfp',
}


class HarnessError(Exception):
    """Something is wrong with the harness itself (exit 2)."""


def jsonable(x):
    """Convert a case description to plain JSON data (bytes -> hex string)."""
    if isinstance(x, (bytes, bytearray, memoryview)):
        return {'hex': bytes(x).hex()}
    if isinstance(x, dict):
        return {str(k): jsonable(v) for k, v in x.items()}
    if isinstance(x, (list, tuple)):
        return [jsonable(v) for v in x]
    if isinstance(x, (set, frozenset)):
        return sorted((jsonable(v) for v in x), key=repr)
    if isinstance(x, (str, int, float, bool)) or x is None:
        return x
    if hasattr(x, 'name') and hasattr(x, 'value'):
        return jsonable(x.value)
    return repr(x)


def unjson(x):
    """Inverse of jsonable for the {'hex': ...} convention."""
    if isinstance(x, dict):
        if set(x.keys()) == {'hex'}:
            return bytes.fromhex(x['hex'])
        return {k: unjson(v) for k, v in x.items()}
    if isinstance(x, list):
        return [unjson(v) for v in x]
    return x


def fingerprint(x) -> int:
    data = json.dumps(jsonable(x), sort_keys=True, separators=(',', ':')).encode()
    return int.from_bytes(hashlib.blake2b(data, digest_size=8).digest(), 'big')


class Ctx:
    def __init__(self, prop: str, tier: str, seed: int, shard: int = 0, nshards: int = 1):
        self.prop = prop
        self.tier = tier
        self.seed = seed
        self.shard = shard
        self.nshards = nshards
        self.t0 = time.time()
        self.evaluations = 0
        self.nontrivial: set[int] = set()
        self.labels: collections.Counter = collections.Counter()
        self.samples: list = []
        self._sample_labels: set = set()
        self.failures: dict[str, dict] = {}
        self.excluded: collections.Counter = collections.Counter()
        self.assumptions: list[str] = []
        self.extra: dict = {}
        self.rule = ''
        self.level = 'exploration'
        self.notes: list[str] = []
        self.replaying = False
        self.max_samples = 10
        budget = os.environ.get('VERIF_BUDGET_S')
        self.budget_s = float(budget) if budget else (300.0 if tier == 'quick' else 3000.0)

    # -- sizing ------------------------------------------------------------
    @property
    def quick(self) -> bool:
        return self.tier == 'quick'

    def n(self, quick: int, thorough: int) -> int:
        """Number of cases for this process (thorough totals are split over shards)."""
        if self.quick:
            return quick
        return max(1, thorough // self.nshards)

    def pick(self, quick, thorough):
        return quick if self.quick else thorough

    def time_left(self) -> float:
        return self.budget_s - (time.time() - self.t0)

    def out_of_time(self) -> bool:
        return self.time_left() <= 0

    def subseed(self, name: str) -> int:
        return zlib.crc32(f'{self.seed}/{self.prop}/{name}/{self.shard}'.encode()) & 0x7FFFFFFF

    def outdir(self, *parts) -> str:
        d = os.path.join(VERIF, 'out', self.prop, f's{self.shard}', *parts)
        os.makedirs(d, exist_ok=True)
        return d

    # -- recording ---------------------------------------------------------
    def case(self, fp, nontrivial: bool, labels=(), sample=None) -> None:
        """Record one generated case. fp: anything jsonable identifying the case."""
        self.evaluations += 1
        for label in labels:
            self.labels[label] += 1
        if nontrivial:
            h = fp if isinstance(fp, int) else fingerprint(fp)
            self.nontrivial.add(h)
        if sample is not None and len(self.samples) < self.max_samples:
            key = tuple(sorted(labels)) if labels else None
            # keep samples diverse: at most one per label set until we run dry
            if key not in self._sample_labels or len(self.samples) < 3:
                self._sample_labels.add(key)
                self.samples.append(jsonable(sample))

    def label(self, *labels) -> None:
        for label in labels:
            self.labels[label] += 1

    def exclude(self, what: str, n: int = 1) -> None:
        self.excluded[what] += n

    def fail(self, signature: str, what: str, case) -> None:
        """Record a property violation, bucketed by signature. Keeps the smallest case."""
        case_j = jsonable(case)
        size = len(json.dumps(case_j))
        bucket = self.failures.get(signature)
        if bucket is None:
            self.failures[signature] = {
                'signature': signature,
                'what': what,
                'case': case_j,
                'size': size,
                'count': 1,
            }
        else:
            bucket['count'] += 1
            if size < bucket['size']:
                bucket.update(what=what, case=case_j, size=size)

    def floor(self, label: str, minimum: int) -> None:
        """The generator must have produced `label` at least `minimum` times."""
        if self.replaying:
            return
        if self.labels.get(label, 0) < minimum:
            known = load_known()
            unlisted = [sig for sig in self.failures if match_known(self.prop, sig, known) is None]
            if unlisted or any(k.startswith('budget_hit:') for k in self.labels):
                # violations cut cases short (or the tier budget ran out): report, don't mask
                self.notes.append(f'class {label!r} reached only {self.labels.get(label, 0)} < {minimum} times')
                return
            raise HarnessError(
                f'generator does not reach class {label!r}: '
                f'{self.labels.get(label, 0)} < {minimum}'
            )

    # -- hypothesis --------------------------------------------------------
    def settings(self, max_examples: int, **kw):
        import hypothesis
        from hypothesis import HealthCheck, Phase

        phases = kw.pop('phases', (Phase.generate,))
        return hypothesis.settings(
            max_examples=max_examples,
            database=None,
            deadline=None,
            derandomize=False,
            report_multiple_bugs=False,
            print_blob=False,
            phases=phases,
            suppress_health_check=list(HealthCheck),
            **kw,
        )

    def hyp(self, name: str, fn, strategy, max_examples: int, **kw) -> None:
        """Run fn(drawn) over generated inputs, seeded from VERIF_SEED.

        fn records failures with ctx.fail() and returns normally (collect mode); an
        exception escaping fn is a harness error.
        """
        import hypothesis

        if max_examples <= 0:
            return
        ctx = self

        def body(arg):
            if ctx.out_of_time():
                ctx.labels['budget_hit:' + name] += 1
                return
            fn(arg)

        test = hypothesis.given(strategy)(body)
        test = hypothesis.seed(self.subseed(name))(test)
        test = self.settings(max_examples, **kw)(test)
        test()

    def shrink(self, name: str, strategy, still_fails, max_examples: int = 400):
        """Shrink with Hypothesis: smallest drawn value for which still_fails(x)."""
        import hypothesis
        from hypothesis import Phase

        try:
            return hypothesis.find(
                strategy,
                still_fails,
                settings=self.settings(
                    max_examples, phases=(Phase.generate, Phase.shrink)
                ),
                random=__import__('random').Random(self.subseed(name)),
            )
        except hypothesis.errors.NoSuchExample:
            return None

    # -- partial results (sharding) -----------------------------------------
    def dump_partial(self) -> dict:
        return {
            'evaluations': self.evaluations,
            'nontrivial': sorted(self.nontrivial),
            'labels': dict(self.labels),
            'samples': self.samples,
            'failures': self.failures,
            'excluded': dict(self.excluded),
            'assumptions': self.assumptions,
            'extra': self.extra,
            'rule': self.rule,
            'level': self.level,
            'notes': self.notes,
        }

    def merge_partial(self, p: dict) -> None:
        self.evaluations += p['evaluations']
        self.nontrivial.update(p['nontrivial'])
        self.labels.update(p['labels'])
        for s in p['samples']:
            if len(self.samples) < self.max_samples:
                self.samples.append(s)
        for sig, b in p['failures'].items():
            mine = self.failures.get(sig)
            if mine is None:
                self.failures[sig] = b
            else:
                mine['count'] += b['count']
                if b['size'] < mine['size']:
                    mine.update(what=b['what'], case=b['case'], size=b['size'])
        self.excluded.update(p['excluded'])
        for a in p['assumptions']:
            if a not in self.assumptions:
                self.assumptions.append(a)
        for k, v in p['extra'].items():
            if isinstance(v, (int, float)) and isinstance(self.extra.get(k), (int, float)) and k.startswith('sum_'):
                self.extra[k] += v
            else:
                self.extra.setdefault(k, v)
        self.rule = self.rule or p['rule']
        self.level = p['level']
        for nline in p['notes']:
            if nline not in self.notes:
                self.notes.append(nline)


# ---------------------------------------------------------------------------
def load_known() -> list[dict]:
    path = os.path.join(VERIF, 'known_findings.json')
    if not os.path.exists(path):
        return []
    with open(path) as f:
        return json.load(f)['findings']


def match_known(prop: str, signature: str, known: list[dict]):
    for k in known:
        if k.get('status') != 'known' or k.get('property') != prop:
            continue
        if fnmatch.fnmatchcase(signature, k['signature']):
            return k
    return None


def write_evidence(ctx: Ctx, violations: int, known_hits: list[str]) -> None:
    import jsonschema

    coverage = {
        'evaluations': ctx.evaluations,
        'distinct_nontrivial': len(ctx.nontrivial),
        'rule': ctx.rule,
        'samples': ctx.samples[: ctx.max_samples],
        'labels': dict(sorted(ctx.labels.items())),
        'excluded_by_known_finding': dict(ctx.excluded),
        'known_findings_reproduced': known_hits,
        'shards': ctx.nshards,
        'notes': ctx.notes,
    }
    coverage.update(ctx.extra)
    evidence = {
        'property_id': ctx.prop,
        'tier': ctx.tier,
        'seed': ctx.seed,
        'level': ctx.level,
        'coverage': coverage,
        'assumptions': ctx.assumptions,
        'wall_s': round(time.time() - ctx.t0, 2),
        'violations': violations,
    }
    schema_path = '/root/.vp/EVIDENCE.schema.json'
    if not os.path.exists(schema_path):
        schema_path = os.path.join(VERIF, 'vlib', 'EVIDENCE.schema.json')
    with open(schema_path) as f:
        schema = json.load(f)
    try:
        jsonschema.validate(evidence, schema)
    except jsonschema.ValidationError as e:
        raise HarnessError(f'evidence does not validate: {e.message}') from e
    edir = os.path.join(VERIF, 'out', 'evidence_sens') if os.environ.get('VERIF_NO_EVIDENCE') else os.path.join(VERIF, 'evidence')
    os.makedirs(edir, exist_ok=True)
    path = os.path.join(edir, f'{ctx.prop}.json')
    with open(path + '.tmp', 'w') as f:
        json.dump(evidence, f, indent=1, sort_keys=True)
        f.write('\n')
    os.replace(path + '.tmp', path)
    if ctx.tier == 'thorough' and not os.environ.get('VERIF_NO_EVIDENCE'):
        # the last thorough run is kept beside the per-change (quick) evidence, which the next quick run overwrites
        tdir = os.path.join(edir, 'thorough')
        os.makedirs(tdir, exist_ok=True)
        with open(os.path.join(tdir, f'{ctx.prop}.json'), 'w') as f:
            json.dump(evidence, f, indent=1, sort_keys=True)
            f.write('\n')


def _list_paths(case, prefix=()):
    """Paths of list-valued entries (the shrinkable sequences) inside a case."""
    out = []
    if isinstance(case, dict):
        for k, v in case.items():
            if isinstance(v, list):
                out.append(prefix + (k,))
            out.extend(_list_paths(v, prefix + (k,)))
    return out


def _get(case, path):
    for k in path:
        case = case[k]
    return case


def _with(case, path, value):
    if not path:
        return value
    c = dict(case)
    c[path[0]] = _with(case[path[0]], path[1:], value)
    return c


def shrink_failures(ctx: Ctx, mod, known: list[dict]) -> None:
    """ddmin over the list-valued parts of each new failure's case, through mod.replay.

    A candidate is kept only if the *same signature* reproduces, so shrinking never
    slides from one root cause to another.
    """
    if not hasattr(mod, 'replay') or getattr(mod, 'NO_SHRINK', False):
        return
    keys = getattr(mod, 'SHRINK_KEYS', ('ops',))
    per_bucket = 8.0 if ctx.quick else 60.0
    for sig, b in ctx.failures.items():
        if match_known(ctx.prop, sig, known) is not None:
            continue
        t_end = time.time() + per_bucket

        def reproduces(case) -> bool:
            sub = Ctx(ctx.prop, ctx.tier, ctx.seed)
            sub.replaying = True
            try:
                mod.replay(sub, unjson(case))
            except Exception:
                return False
            return sig in sub.failures

        case = b['case']
        if not isinstance(case, dict) or not reproduces(case):
            continue
        changed = True
        while changed and time.time() < t_end:
            changed = False
            for path in _list_paths(case):
                if path[-1] not in keys:
                    continue
                items = _get(case, path)
                chunk = max(1, len(items) // 2)
                while chunk >= 1 and time.time() < t_end:
                    i = 0
                    progress = False
                    while i < len(items) and time.time() < t_end:
                        cand_items = items[:i] + items[i + chunk :]
                        cand = _with(case, path, cand_items)
                        if len(cand_items) < len(items) and reproduces(cand):
                            items = cand_items
                            case = cand
                            progress = changed = True
                        else:
                            i += chunk
                    if not progress or chunk == 1:
                        chunk //= 2
        b['case'] = case
        b['size'] = len(json.dumps(case))
        b['shrunk'] = True


def finish(ctx: Ctx, mod=None) -> int:
    known = load_known()
    if mod is not None and ctx.failures and not ctx.replaying:
        try:
            shrink_failures(ctx, mod, known)
        except Exception:
            traceback.print_exc()
    violations = 0
    known_hits = []
    lines = []
    for sig in sorted(ctx.failures):
        b = ctx.failures[sig]
        k = match_known(ctx.prop, sig, known)
        if k is not None:
            known_hits.append(sig)
            lines.append(f"KNOWN-FINDING: property={ctx.prop} {k['what']} [{sig}] ({b['count']} cases)")
            continue
        violations += 1
        rdir = os.path.join(VERIF, 'out', 'replays', ctx.prop)
        os.makedirs(rdir, exist_ok=True)
        name = hashlib.blake2b(sig.encode(), digest_size=5).hexdigest()
        path = os.path.join(rdir, f'{name}.json')
        with open(path, 'w') as f:
            json.dump(
                {
                    'property': ctx.prop,
                    'signature': sig,
                    'what': b['what'],
                    'seed': ctx.seed,
                    'tier': ctx.tier,
                    'count': b['count'],
                    'case': b['case'],
                },
                f,
                indent=1,
            )
            f.write('\n')
        lines.append(f'VIOLATION property={ctx.prop} replay={path}')
        lines.append(f'  signature: {sig}')
        lines.append(f"  what: {b['what']} ({b['count']} cases)")
    if not ctx.replaying:
        if ctx.evaluations < 1 or len(ctx.nontrivial) < 2:
            raise HarnessError(
                f'inconclusive: {ctx.evaluations} evaluations, {len(ctx.nontrivial)} distinct non-trivial'
            )
        write_evidence(ctx, violations, known_hits)
    for line in lines:
        print(line)
    print(
        f'{ctx.prop} {ctx.tier} seed={ctx.seed}: {ctx.evaluations} cases, '
        f'{len(ctx.nontrivial)} distinct non-trivial, {violations} violation bucket(s), '
        f'{len(known_hits)} known finding(s), {time.time() - ctx.t0:.1f}s'
    )
    sys.stdout.flush()
    return 1 if violations else 0


def run_regression_replays(ctx: Ctx, mod) -> None:
    """Committed replay files (fixed and known findings) are re-run first in every tier."""
    rdir = os.path.join(VERIF, 'replays', ctx.prop)
    if not os.path.isdir(rdir) or not hasattr(mod, 'replay'):
        return
    for fn in sorted(os.listdir(rdir)):
        if not fn.endswith('.json'):
            continue
        with open(os.path.join(rdir, fn)) as f:
            r = json.load(f)
        before = set(ctx.failures)
        mod.replay(ctx, unjson(r['case']))
        ctx.labels['regression_replays'] += 1
        if set(ctx.failures) - before:
            ctx.labels['regression_replays_failing'] += 1


def run_check_inprocess(ctx: Ctx, mod) -> None:
    ctx.rule = getattr(mod, 'RULE', '')
    ctx.level = getattr(mod, 'LEVEL', 'exploration')
    ctx.assumptions = list(getattr(mod, 'ASSUMPTIONS', []))
    if ctx.shard == 0:
        run_regression_replays(ctx, mod)
    mod.run(ctx)


def main(argv=None) -> int:
    ap = argparse.ArgumentParser()
    ap.add_argument('prop')
    ap.add_argument('--tier', default=os.environ.get('VERIF_TIER', 'quick'))
    ap.add_argument('--replay')
    ap.add_argument('--shard')
    ap.add_argument('--partial')
    ap.add_argument('--shards', type=int, default=int(os.environ.get('VERIF_SHARDS', '16')))
    ap.add_argument('--verbose', action='store_true')
    args = ap.parse_args(argv)

    logging.disable(logging.CRITICAL if not args.verbose else logging.NOTSET)
    import warnings

    warnings.simplefilter('ignore')

    prop = args.prop.upper()
    tier = args.tier if args.tier in ('quick', 'thorough') else 'quick'
    try:
        seed = int(os.environ.get('VERIF_SEED', '1') or '1')
    except ValueError:
        seed = zlib.crc32(os.environ['VERIF_SEED'].encode())

    try:
        if prop not in CHECKS:
            raise HarnessError(f'unknown property {prop}')
        mod = importlib.import_module(CHECKS[prop])

        if args.replay:
            ctx = Ctx(prop, tier, seed)
            ctx.replaying = True
            with open(args.replay) as f:
                r = json.load(f)
            mod.replay(ctx, unjson(r['case']))
            if not ctx.failures:
                print(f'replay {args.replay}: property held (no violation reproduced)')
            return finish(ctx)

        if args.shard:
            i, n = args.shard.split('/')
            ctx = Ctx(prop, tier, seed, int(i), int(n))
            run_check_inprocess(ctx, mod)
            with open(args.partial, 'w') as f:
                json.dump(ctx.dump_partial(), f)
            return 0

        nshards = 1 if tier == 'quick' else getattr(mod, 'SHARDS', args.shards)
        # stale replay files of earlier runs must not be mistaken for this run's findings
        rdir = os.path.join(VERIF, 'out', 'replays', prop)
        if os.path.isdir(rdir) and not os.environ.get('VERIF_KEEP_REPLAYS'):
            for fn in os.listdir(rdir):
                if fn.endswith('.json'):
                    os.unlink(os.path.join(rdir, fn))
        ctx = Ctx(prop, tier, seed, 0, nshards)
        if nshards == 1:
            run_check_inprocess(ctx, mod)
            return finish(ctx, mod)

        # thorough: shard over processes, merge partial results
        pdir = os.path.join(VERIF, 'out', prop, 'partials')
        os.makedirs(pdir, exist_ok=True)
        procs = []
        for i in range(nshards):
            ppath = os.path.join(pdir, f'shard_{i}.json')
            if os.path.exists(ppath):
                os.unlink(ppath)
            cmd = [
                sys.executable, '-X', 'faulthandler', '-m', 'vlib.runner', prop,
                '--tier', tier, '--shard', f'{i}/{nshards}', '--partial', ppath,
            ]
            procs.append((i, ppath, subprocess.Popen(cmd, cwd=VERIF)))
        ctx.rule = getattr(mod, 'RULE', '')
        ctx.level = getattr(mod, 'LEVEL', 'exploration')
        bad = []
        for i, ppath, p in procs:
            rc = p.wait()
            if rc != 0 or not os.path.exists(ppath):
                bad.append((i, rc))
                continue
            with open(ppath) as f:
                ctx.merge_partial(json.load(f))
        if bad:
            raise HarnessError(f'shards failed: {bad}')
        return finish(ctx, mod)
    except HarnessError as e:
        print(f'HARNESS-ERROR property={prop}: {e}', file=sys.stderr)
        return 2
    except BaseException:  # noqa: B902 - anything escaping a check is a harness error
        traceback.print_exc()
        print(f'HARNESS-ERROR property={prop}: unexpected exception in harness', file=sys.stderr)
        return 2


if __name__ == '__main__':
    sys.exit(main())
